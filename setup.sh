#!/bin/bash
# Offline setup: build the fact-extraction driver and warm the dependency cache (nightly cargo check).
set -e
cd "$(dirname "$0")"
export CARGO_NET_OFFLINE=true
mkdir -p build
python3 - <<'P'
import sys
sys.path.insert(0, 'engine')
import extract
extract.build_driver()
d, info = extract.extract(force=True)
print("setup: facts at", d, info)
P
