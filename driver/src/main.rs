// mdx-facts: rustc_private driver that dumps MIR facts (JSON) for the crates named in
// MDX_CRATES (comma separated crate names) into MDX_OUT/<crate>.json.
// Used as RUSTC_WRAPPER: argv[1] is the real rustc path and is dropped.
#![feature(rustc_private)]

extern crate rustc_abi;
extern crate rustc_driver;
extern crate rustc_hir;
extern crate rustc_interface;
extern crate rustc_middle;
extern crate rustc_span;

use rustc_driver::Compilation;
use rustc_hir::def::DefKind;
use rustc_hir::def_id::DefId;
use rustc_middle::mir::{
    AggregateKind, BasicBlockData, BinOp, Body, BorrowKind, CastKind, Const, Operand, Place,
    PlaceElem, Rvalue, StatementKind, TerminatorKind, UnOp, VarDebugInfoContents,
};
use rustc_middle::mir::PlaceTy;
use rustc_middle::ty::{self, Instance, Ty, TyCtxt, TypingEnv};
use rustc_span::Span;
use std::fmt::Write as _;

fn esc(s: &str) -> String {
    let mut o = String::with_capacity(s.len() + 2);
    o.push('"');
    for c in s.chars() {
        match c {
            '"' => o.push_str("\\\""),
            '\\' => o.push_str("\\\\"),
            '\n' => o.push_str("\\n"),
            '\r' => o.push_str("\\r"),
            '\t' => o.push_str("\\t"),
            c if (c as u32) < 0x20 => {
                let _ = write!(o, "\\u{:04x}", c as u32);
            }
            c => o.push(c),
        }
    }
    o.push('"');
    o
}

struct Cx<'tcx> {
    tcx: TyCtxt<'tcx>,
}

impl<'tcx> Cx<'tcx> {
    fn def_id_str(&self, did: DefId) -> String {
        // crate name + verbose def path: unique and stable across runs
        let krate = self.tcx.crate_name(did.krate);
        format!("{}{}", krate, self.tcx.def_path(did).to_string_no_crate_verbose())
    }

    fn span_str(&self, sp: Span) -> String {
        let sm = self.tcx.sess.source_map();
        // use the outermost call-site so that macro expansions (ensure!, format!) point to user code
        let sp2 = sp.source_callsite();
        let lo = sm.lookup_char_pos(sp2.lo());
        let name = format!("{}", lo.file.name.prefer_local_unconditionally());
        format!("{}:{}", name, lo.line)
    }

    fn place(&self, body: &Body<'tcx>, p: &Place<'tcx>) -> String {
        let mut s = format!("{{\"l\":{},\"p\":[", p.local.as_usize());
        let mut pty = PlaceTy::from_ty(body.local_decls[p.local].ty);
        let mut first = true;
        for elem in p.projection.iter() {
            if !first {
                s.push(',');
            }
            first = false;
            match elem {
                PlaceElem::Deref => s.push_str("[\"d\"]"),
                PlaceElem::Field(idx, _) => {
                    let name = match pty.ty.kind() {
                        ty::Adt(def, _) => {
                            let vi = pty.variant_index.unwrap_or(rustc_abi::FIRST_VARIANT);
                            if def.is_enum() || def.is_struct() || def.is_union() {
                                let v = def.variant(vi);
                                if idx.as_usize() < v.fields.len() {
                                    v.fields[idx].name.to_string()
                                } else {
                                    format!("{}", idx.as_usize())
                                }
                            } else {
                                format!("{}", idx.as_usize())
                            }
                        }
                        _ => format!("{}", idx.as_usize()),
                    };
                    let adt = match pty.ty.kind() {
                        ty::Adt(def, _) => self.tcx.def_path_str(def.did()),
                        ty::Tuple(_) => "(tuple)".to_string(),
                        ty::Closure(..) => "(closure)".to_string(),
                        _ => "".to_string(),
                    };
                    let _ = write!(s, "[\"f\",{},{},{}]", esc(&name), idx.as_usize(), esc(&adt));
                }
                PlaceElem::Index(l) => {
                    let _ = write!(s, "[\"i\",{}]", l.as_usize());
                }
                PlaceElem::ConstantIndex { offset, from_end, .. } => {
                    let _ = write!(s, "[\"ci\",{},{}]", offset, from_end);
                }
                PlaceElem::Subslice { .. } => s.push_str("[\"sub\"]"),
                PlaceElem::Downcast(name, vi) => {
                    let n = match name {
                        Some(n) => n.to_string(),
                        None => format!("{}", vi.as_usize()),
                    };
                    let adt = match pty.ty.kind() {
                        ty::Adt(def, _) => self.tcx.def_path_str(def.did()),
                        _ => "".to_string(),
                    };
                    let _ = write!(s, "[\"dc\",{},{},{}]", esc(&n), vi.as_usize(), esc(&adt));
                }
                PlaceElem::OpaqueCast(_) => s.push_str("[\"oc\"]"),
                PlaceElem::UnwrapUnsafeBinder(_) => s.push_str("[\"ub\"]"),
            }
            pty = pty.projection_ty(self.tcx, elem);
        }
        s.push_str("]}");
        s
    }

    fn operand(&self, body: &Body<'tcx>, o: &Operand<'tcx>) -> String {
        match o {
            Operand::Copy(p) => format!("{{\"k\":\"copy\",\"place\":{}}}", self.place(body, p)),
            Operand::Move(p) => format!("{{\"k\":\"move\",\"place\":{}}}", self.place(body, p)),
            Operand::Constant(c) => {
                let ty = c.const_.ty();
                let mut s = format!("{{\"k\":\"const\",\"ty\":{}", esc(&format!("{}", ty)));
                let _ = write!(s, ",\"text\":{}", esc(&format!("{}", c.const_)));
                match c.const_ {
                    Const::Unevaluated(uv, _) => {
                        let _ = write!(s, ",\"def\":{}", esc(&self.def_id_str(uv.def)));
                        if uv.promoted.is_some() {
                            let _ = write!(s, ",\"promoted\":{}", uv.promoted.unwrap().as_usize());
                        }
                    }
                    _ => {}
                }
                if let ty::FnDef(did, _) = ty.kind() {
                    let _ = write!(s, ",\"fn\":{}", esc(&self.def_id_str(*did)));
                }
                s.push('}');
                s
            }
            #[allow(unreachable_patterns)]
            _ => format!("{{\"k\":\"other\",\"text\":{}}}", esc(&format!("{:?}", o))),
        }
    }

    fn adt_fields(&self, did: DefId, vi: rustc_abi::VariantIdx) -> (String, String, Vec<String>) {
        let def = self.tcx.adt_def(did);
        let v = def.variant(vi);
        (
            self.tcx.def_path_str(did),
            v.name.to_string(),
            v.fields.iter().map(|f| f.name.to_string()).collect(),
        )
    }

    fn rvalue(&self, body: &Body<'tcx>, rv: &Rvalue<'tcx>) -> String {
        match rv {
            Rvalue::Use(o, _) => format!("{{\"k\":\"use\",\"op\":{}}}", self.operand(body, o)),
            Rvalue::CopyForDeref(p) => format!(
                "{{\"k\":\"use\",\"op\":{{\"k\":\"copy\",\"place\":{}}}}}",
                self.place(body, p)
            ),
            Rvalue::Ref(_, bk, p) => {
                let m = matches!(bk, BorrowKind::Mut { .. });
                format!("{{\"k\":\"ref\",\"mut\":{},\"place\":{}}}", m, self.place(body, p))
            }
            Rvalue::RawPtr(k, p) => {
                format!(
                    "{{\"k\":\"ref\",\"raw\":true,\"mut\":{},\"place\":{}}}",
                    !format!("{:?}", k).contains("Const"),
                    self.place(body, p)
                )
            }
            Rvalue::Repeat(o, _) => format!("{{\"k\":\"repeat\",\"op\":{}}}", self.operand(body, o)),
            Rvalue::Cast(ck, o, ty) => {
                let ckn = match ck {
                    CastKind::IntToInt => "IntToInt".to_string(),
                    other => format!("{:?}", other),
                };
                format!(
                    "{{\"k\":\"cast\",\"ck\":{},\"op\":{},\"ty\":{}}}",
                    esc(&ckn),
                    self.operand(body, o),
                    esc(&format!("{}", ty))
                )
            }
            Rvalue::BinaryOp(op, ab) => {
                let (a, b) = &**ab;
                format!(
                    "{{\"k\":\"bin\",\"op\":{},\"a\":{},\"b\":{}}}",
                    esc(&binop(*op)),
                    self.operand(body, a),
                    self.operand(body, b)
                )
            }
            Rvalue::UnaryOp(op, a) => {
                let opn = match op {
                    UnOp::Not => "Not".to_string(),
                    UnOp::Neg => "Neg".to_string(),
                    other => format!("{:?}", other),
                };
                format!("{{\"k\":\"un\",\"op\":{},\"a\":{}}}", esc(&opn), self.operand(body, a))
            }
            Rvalue::Discriminant(p) => {
                let pty = p.ty(&body.local_decls, self.tcx).ty;
                let mut s = format!("{{\"k\":\"discr\",\"place\":{}", self.place(body, p));
                if let ty::Adt(def, _) = pty.kind() {
                    if def.is_enum() {
                        let _ = write!(s, ",\"adt\":{}", esc(&self.tcx.def_path_str(def.did())));
                        s.push_str(",\"variants\":[");
                        let mut first = true;
                        for (vi, d) in def.discriminants(self.tcx) {
                            if !first {
                                s.push(',');
                            }
                            first = false;
                            let _ = write!(
                                s,
                                "[{},{}]",
                                esc(&format!("{}", d.val)),
                                esc(&def.variant(vi).name.to_string())
                            );
                        }
                        s.push(']');
                    }
                }
                s.push('}');
                s
            }
            Rvalue::Aggregate(kind, ops) => {
                let opss: Vec<String> = ops.iter().map(|o| self.operand(body, o)).collect();
                let mut s = String::from("{\"k\":\"agg\"");
                match &**kind {
                    AggregateKind::Array(_) => s.push_str(",\"agg\":\"array\""),
                    AggregateKind::Tuple => s.push_str(",\"agg\":\"tuple\""),
                    AggregateKind::Adt(did, vi, _, _, active) => {
                        let (name, variant, fields) = self.adt_fields(*did, *vi);
                        let _ = write!(
                            s,
                            ",\"agg\":\"adt\",\"name\":{},\"variant\":{},\"vidx\":{},\"fields\":[{}]",
                            esc(&name),
                            esc(&variant),
                            vi.as_usize(),
                            fields.iter().map(|f| esc(f)).collect::<Vec<_>>().join(",")
                        );
                        if let Some(a) = active {
                            let _ = write!(s, ",\"active\":{}", a.as_usize());
                        }
                    }
                    AggregateKind::Closure(did, _) => {
                        let _ = write!(s, ",\"agg\":\"closure\",\"def\":{}", esc(&self.def_id_str(*did)));
                    }
                    other => {
                        let _ = write!(s, ",\"agg\":\"other\",\"text\":{}", esc(&format!("{:?}", other)));
                    }
                }
                let _ = write!(s, ",\"ops\":[{}]}}", opss.join(","));
                s
            }
            other => format!("{{\"k\":\"other\",\"text\":{}}}", esc(&format!("{:?}", other))),
        }
    }

    fn block(&self, owner: DefId, body: &Body<'tcx>, bb: &BasicBlockData<'tcx>) -> String {
        let mut s = String::from("{\"stmts\":[");
        let mut first = true;
        for st in &bb.statements {
            let js = match &st.kind {
                StatementKind::Assign(b) => {
                    let (p, rv) = &**b;
                    Some(format!(
                        "{{\"k\":\"assign\",\"lhs\":{},\"rv\":{},\"span\":{},\"exp\":{}}}",
                        self.place(body, p),
                        self.rvalue(body, rv),
                        esc(&self.span_str(st.source_info.span)),
                        st.source_info.span.from_expansion()
                    ))
                }
                StatementKind::SetDiscriminant { place, variant_index } => Some(format!(
                    "{{\"k\":\"setdiscr\",\"lhs\":{},\"vidx\":{}}}",
                    self.place(body, place),
                    variant_index.as_usize()
                )),
                _ => None,
            };
            if let Some(js) = js {
                if !first {
                    s.push(',');
                }
                first = false;
                s.push_str(&js);
            }
        }
        s.push_str("],\"term\":");
        let term = bb.terminator();
        let sp = esc(&self.span_str(term.source_info.span));
        let t = match &term.kind {
            TerminatorKind::Goto { target } => format!("{{\"k\":\"goto\",\"t\":{}}}", target.as_usize()),
            TerminatorKind::SwitchInt { discr, targets } => {
                let mut ts = String::new();
                let mut f = true;
                for (v, t) in targets.iter() {
                    if !f {
                        ts.push(',');
                    }
                    f = false;
                    let _ = write!(ts, "[{},{}]", esc(&format!("{}", v)), t.as_usize());
                }
                format!(
                    "{{\"k\":\"switch\",\"op\":{},\"targets\":[{}],\"otherwise\":{},\"span\":{}}}",
                    self.operand(body, discr),
                    ts,
                    targets.otherwise().as_usize(),
                    sp
                )
            }
            TerminatorKind::Return => "{\"k\":\"return\"}".to_string(),
            TerminatorKind::Unreachable => "{\"k\":\"unreachable\"}".to_string(),
            TerminatorKind::UnwindResume | TerminatorKind::UnwindTerminate(_) => {
                "{\"k\":\"resume\"}".to_string()
            }
            TerminatorKind::Drop { place, target, .. } => format!(
                "{{\"k\":\"drop\",\"place\":{},\"t\":{}}}",
                self.place(body, place),
                target.as_usize()
            ),
            TerminatorKind::Assert { cond, expected, target, msg, .. } => format!(
                "{{\"k\":\"assert\",\"cond\":{},\"expected\":{},\"t\":{},\"msg\":{},\"span\":{}}}",
                self.operand(body, cond),
                expected,
                target.as_usize(),
                esc(&format!("{:?}", msg).chars().take(60).collect::<String>()),
                sp
            ),
            TerminatorKind::Call { func, args, destination, target, .. } => {
                let mut s2 = String::from("{\"k\":\"call\"");
                let fty = func.ty(&body.local_decls, self.tcx);
                match fty.kind() {
                    ty::FnDef(did, gargs) => {
                        let _ = write!(s2, ",\"callee\":{}", esc(&self.tcx.def_path_str(*did)));
                        let _ = write!(s2, ",\"callee_id\":{}", esc(&self.def_id_str(*did)));
                        let _ = write!(
                            s2,
                            ",\"text\":{}",
                            esc(&self.tcx.def_path_str_with_args(*did, gargs))
                        );
                        let gs: Vec<String> = gargs
                            .iter()
                            .filter_map(|g| g.as_type().map(|t| esc(&format!("{}", t))))
                            .collect();
                        let _ = write!(s2, ",\"targs\":[{}]", gs.join(","));
                        let env = TypingEnv::post_analysis(self.tcx, owner);
                        match Instance::try_resolve(self.tcx, env, *did, gargs) {
                            Ok(Some(inst)) => {
                                let rd = inst.def_id();
                                let _ = write!(s2, ",\"resolved\":{}", esc(&self.tcx.def_path_str(rd)));
                                let _ = write!(s2, ",\"resolved_id\":{}", esc(&self.def_id_str(rd)));
                                let kind = format!("{:?}", inst.def);
                                let kind = kind.split('(').next().unwrap_or("").to_string();
                                let _ = write!(s2, ",\"inst\":{}", esc(&kind));
                                if let Some(imp) = self.tcx.impl_of_assoc(rd) {
                                    let st = self.tcx.type_of(imp).instantiate_identity().skip_norm_wip();
                                    let _ = write!(s2, ",\"impl_self\":{}", esc(&format!("{}", st)));
                                }
                            }
                            _ => {
                                s2.push_str(",\"unresolved\":true");
                            }
                        }
                    }
                    _ => {
                        let _ = write!(s2, ",\"indirect\":{}", self.operand(body, func));
                        let _ = write!(s2, ",\"fty\":{}", esc(&format!("{}", fty)));
                    }
                }
                let a: Vec<String> = args.iter().map(|a| self.operand(body, &a.node)).collect();
                let _ = write!(s2, ",\"args\":[{}]", a.join(","));
                let _ = write!(s2, ",\"dest\":{}", self.place(body, destination));
                match target {
                    Some(t) => {
                        let _ = write!(s2, ",\"t\":{}", t.as_usize());
                    }
                    None => s2.push_str(",\"t\":null"),
                }
                let _ = write!(
                    s2,
                    ",\"span\":{},\"exp\":{}}}",
                    sp,
                    term.source_info.span.from_expansion()
                );
                s2
            }
            other => format!(
                "{{\"k\":\"other\",\"text\":{}}}",
                esc(&format!("{:?}", other).chars().take(80).collect::<String>())
            ),
        };
        s.push_str(&t);
        let _ = write!(s, ",\"cleanup\":{}}}", bb.is_cleanup);
        s
    }

    fn body_json(&self, did: DefId, kind: &str, body: &Body<'tcx>) -> String {
        let mut s = String::from("{");
        let _ = write!(s, "\"id\":{}", esc(&self.def_id_str(did)));
        let _ = write!(s, ",\"name\":{}", esc(&self.tcx.def_path_str(did)));
        let _ = write!(s, ",\"kind\":{}", esc(kind));
        let _ = write!(s, ",\"span\":{}", esc(&self.span_str(body.span)));
        let _ = write!(s, ",\"argc\":{}", body.arg_count);
        if kind == "closure" {
            let parent = self.tcx.typeck_root_def_id(did);
            let _ = write!(s, ",\"root\":{}", esc(&self.def_id_str(parent)));
            let p2 = self.tcx.parent(did);
            let _ = write!(s, ",\"parent\":{}", esc(&self.def_id_str(p2)));
        }
        if matches!(self.tcx.def_kind(did), DefKind::Fn | DefKind::AssocFn) {
            let _ = write!(s, ",\"vis\":{}", esc(&format!("{:?}", self.tcx.visibility(did))));
        }
        s.push_str(",\"locals\":[");
        for (i, ld) in body.local_decls.iter().enumerate() {
            if i > 0 {
                s.push(',');
            }
            s.push_str(&esc(&format!("{}", ld.ty)));
        }
        s.push_str("],\"vars\":[");
        let mut first = true;
        for v in &body.var_debug_info {
            if let VarDebugInfoContents::Place(p) = &v.value {
                if !first {
                    s.push(',');
                }
                first = false;
                let _ = write!(s, "[{},{}]", esc(&v.name.to_string()), self.place(body, p));
            }
        }
        s.push_str("],\"blocks\":[");
        for (i, bb) in body.basic_blocks.iter().enumerate() {
            if i > 0 {
                s.push(',');
            }
            s.push_str(&self.block(did, body, bb));
        }
        s.push_str("]}");
        s
    }
}

fn binop(op: BinOp) -> String {
    format!("{:?}", op)
}

#[allow(dead_code)]
fn ty_str<'tcx>(t: Ty<'tcx>) -> String {
    format!("{}", t)
}

fn dump(tcx: TyCtxt<'_>) {
    let crate_name = tcx.crate_name(rustc_hir::def_id::LOCAL_CRATE).to_string();
    let wanted = std::env::var("MDX_CRATES").unwrap_or_default();
    if !wanted.split(',').any(|w| w == crate_name) {
        return;
    }
    let out_dir = match std::env::var("MDX_OUT") {
        Ok(o) => o,
        Err(_) => return,
    };
    let cx = Cx { tcx };
    let mut bodies: Vec<String> = Vec::new();
    for ldid in tcx.hir_body_owners() {
        let did = ldid.to_def_id();
        let dk = tcx.def_kind(did);
        let (kind, is_const) = match dk {
            DefKind::Fn | DefKind::AssocFn => ("fn", false),
            DefKind::Closure => ("closure", false),
            DefKind::Const { .. } | DefKind::AssocConst { .. } => ("const", true),
            DefKind::Static { .. } => ("static", true),
            _ => continue,
        };
        if is_const {
            let body = tcx.mir_for_ctfe(ldid);
            bodies.push(cx.body_json(did, kind, body));
        } else {
            if tcx.is_constructor(did) {
                continue;
            }
            let body = tcx.optimized_mir(ldid);
            bodies.push(cx.body_json(did, kind, body));
            // promoted constants (`&Some(true)`, `&QueryMsg::CurrentEpoch {}` ...) as bodies of their own
            let proms = tcx.promoted_mir(ldid);
            for (pi, pb) in proms.iter_enumerated() {
                let js = cx.body_json(did, "promoted", pb);
                let idp = format!("\"id\":{}", esc(&cx.def_id_str(did)));
                let idn = format!("\"id\":{}", esc(&format!("{}::promoted[{}]", cx.def_id_str(did), pi.as_usize())));
                bodies.push(js.replacen(&idp, &idn, 1));
            }
        }
    }
    let mut s = String::new();
    let _ = write!(
        s,
        "{{\"crate\":{},\"n_bodies\":{},\"bodies\":[\n{}\n]}}\n",
        esc(&crate_name),
        bodies.len(),
        bodies.join(",\n")
    );
    let path = format!("{}/{}.json", out_dir, crate_name);
    let tmp = format!("{}.tmp{}", path, std::process::id());
    std::fs::write(&tmp, s).expect("write facts");
    std::fs::rename(&tmp, &path).expect("rename facts");
}

struct Cb;
impl rustc_driver::Callbacks for Cb {
    fn after_analysis<'tcx>(
        &mut self,
        _compiler: &rustc_interface::interface::Compiler,
        tcx: TyCtxt<'tcx>,
    ) -> Compilation {
        dump(tcx);
        Compilation::Continue
    }
}

fn main() {
    let mut args: Vec<String> = std::env::args().collect();
    // RUSTC_WRAPPER: argv[1] is the path of the real rustc
    if args.len() > 1 && (args[1].ends_with("rustc") || args[1].contains("/rustc")) {
        args.remove(1);
    }
    let mut cb = Cb;
    rustc_driver::run_compiler(&args, &mut cb);
}
