"""Thorough tier: mutation self-test of the rules against the seeded corpus, compile-fail
witnesses, and re-derivation of trusted-table entries from the dependency's own MIR."""
import glob
import importlib
import json
import os
import re
import shutil
import subprocess
import tempfile

import base
import extract
from absint import Policy, KERNELS, EMPTY, vfield
from base import CutPolicy, exact_origins, all_origins, flat_atoms

VERIF = extract.VERIF


def seeded_for(pid):
    """seeded changes this property's check is on record as detecting (seeded/DETECTION.json)"""
    dp = os.path.join(VERIF, "seeded", "DETECTION.json")
    det = json.load(open(dp)) if os.path.exists(dp) else {}
    out = []
    for name, ids in sorted(det.items()):
        if pid in ids:
            p = os.path.join(VERIF, "seeded", name, "patch.diff")
            if os.path.exists(p):
                out.append((name, p))
    return out


def mutation_selftest(pid, chk, max_n=8):
    """Apply each seeded patch to a scratch copy of /repo (removed afterwards), re-extract facts and
    re-run this property's rules: the rules must report a violation.  A patch that no longer applies
    is skipped and listed; a surviving mutant is a checker failure."""
    mod = importlib.import_module("rules.%s" % pid)
    res = {"tested": 0, "detected": 0, "skipped": [], "survived": []}
    todo = seeded_for(pid)[:max_n]
    for name, patch in todo:
        tmp = tempfile.mkdtemp(prefix="mdx-mut-")
        try:
            dst = os.path.join(tmp, "repo")
            subprocess.run(["rsync", "-a", "--exclude", "target", "--exclude", ".git", extract.REPO + "/", dst + "/"], check=True)
            r = subprocess.run(["git", "apply", "--whitespace=nowarn", patch], cwd=dst, capture_output=True, text=True)
            if r.returncode != 0:
                res["skipped"].append({"mutant": name, "why": "patch does not apply to the current tree"})
                continue
            try:
                fd, info = extract.extract(repo=dst)
            except Exception as ex:
                res["skipped"].append({"mutant": name, "why": "mutated copy does not build: %s" % str(ex)[:100]})
                continue
            W2 = base.World(fd)
            c2 = base.Check(pid, "thorough")
            try:
                mod.run(W2, c2)
            except Exception as ex:  # an exception is also a (crude) detection, but report it
                c2.fail("ENGINE", "exception", str(ex)[:200])
            res["tested"] += 1
            v = c2.violations()
            if v:
                res["detected"] += 1
            else:
                res["survived"].append(name)
            shutil.rmtree(fd, ignore_errors=True)
        finally:
            shutil.rmtree(tmp, ignore_errors=True)
    chk.notes.append("mutation self-test: %s" % json.dumps(res))
    if res["survived"]:
        # a finding about the checker (on this tree a best-effort rule may have stepped aside), not about the code: reported, not a VIOLATION
        print("SELFTEST-NOTE property=%s seeded changes on record as detected by this check are not reported on top of this tree: %s" % (pid, res["survived"]))
        chk.skip("SELFTEST-mutants", "survivors", "seeded changes not reported on top of this tree: %s" % res["survived"])
    else:
        chk.ok("SELFTEST-mutants", "corpus", "%d seeded changes re-applied to a scratch copy: all reported (%d skipped)" % (res["tested"], len(res["skipped"])))
    return res


def refactor_selftest(pid, chk, max_n=6):
    """False-alarm self-test: behaviour-preserving refactoring patches (refactors/) are applied one at a time to a scratch copy of
    /repo; this property's rules must stay quiet on each.  Only run when the current tree itself passed (otherwise a report on the
    refactored copy is the same real violation).  The patches are rotated by property id so that the 19 commands cover the corpus."""
    mod = importlib.import_module("rules.%s" % pid)
    allp = sorted(glob.glob(os.path.join(VERIF, "refactors", "*", "patch.diff")))
    if not allp:
        return
    k = (int(re.sub(r"\D", "", pid) or 0) * max_n) % len(allp)
    todo = (allp[k:] + allp[:k])[:max_n]
    res = {"tested": 0, "quiet": 0, "skipped": [], "alarms": []}
    for patch in todo:
        name = os.path.basename(os.path.dirname(patch))
        tmp = tempfile.mkdtemp(prefix="mdx-ref-")
        try:
            dst = os.path.join(tmp, "repo")
            subprocess.run(["rsync", "-a", "--exclude", "target", "--exclude", ".git", extract.REPO + "/", dst + "/"], check=True)
            r = subprocess.run(["git", "apply", "--whitespace=nowarn", patch], cwd=dst, capture_output=True, text=True)
            if r.returncode != 0:
                res["skipped"].append(name)
                continue
            try:
                fd, info = extract.extract(repo=dst)
            except Exception:
                res["skipped"].append(name)
                continue
            c2 = base.Check(pid, "thorough")
            try:
                mod.run(base.World(fd), c2)
            except Exception as ex:
                c2.fail("ENGINE", "exception", str(ex)[:200])
            res["tested"] += 1
            if c2.violations():
                res["alarms"].append({"refactor": name, "first": "%s | %s" % (c2.violations()[0]["rule"], c2.violations()[0]["instance"])})
            else:
                res["quiet"] += 1
            shutil.rmtree(fd, ignore_errors=True)
        finally:
            shutil.rmtree(tmp, ignore_errors=True)
    chk.notes.append("refactoring self-test: %s" % json.dumps(res))
    if res["alarms"]:
        # likewise a finding about the checker (a refactoring stacked on this tree's own changes), not a property violation of this tree
        print("SELFTEST-NOTE property=%s rules report a behaviour-preserving refactoring stacked on this tree: %s" % (pid, res["alarms"]))
        chk.skip("SELFTEST-refactors", "false alarms", "rules report refactorings stacked on this tree: %s" % res["alarms"])
    else:
        chk.ok("SELFTEST-refactors", "corpus", "%d behaviour-preserving refactorings applied to a scratch copy: all quiet (%d skipped)" % (res["tested"], len(res["skipped"])))


def witnesses(chk):
    wd = os.path.join(VERIF, "witnesses")
    shutil.copy(os.path.join(extract.REPO, "Cargo.lock"), os.path.join(wd, "Cargo.lock"))
    env = dict(os.environ, CARGO_TARGET_DIR=os.path.join(extract.BUILD, "witness-target"), CARGO_NET_OFFLINE="true")
    r = subprocess.run(["cargo", "+nightly", "test", "--doc", "--offline"], cwd=wd, env=env, capture_output=True, text=True)
    out = r.stdout + r.stderr
    m = re.search(r"test result: (\w+)\. (\d+) passed; (\d+) failed", out)
    ok = r.returncode == 0 and m is not None and m.group(1) == "ok" and int(m.group(2)) >= 8
    cf = len(re.findall(r"compile fail \.\.\. ok", out))
    chk.expect(ok and cf >= 4, "T-compile-fail-witnesses", "witnesses crate",
               "%d compile_fail witnesses (E0308: storage write through Deps) fail to compile, their DepsMut twins compile" % cf,
               "witness doc-tests: %s" % (m.group(0) if m else out[-400:]), "witnesses/src/lib.rs")


class NoPrim(Policy):
    """analyse first-party primitives through their real bodies"""
    summarize = KERNELS

    def __init__(self):
        self.opaque = frozenset()


def rederive(W, chk, which):
    """Re-derive semantics-table entries from the dependency's own MIR."""
    import sem
    if "aggregate_coins" in which:
        saved = dict(sem.LOCAL_PRIMITIVES)
        sem.LOCAL_PRIMITIVES.clear()
        try:
            H = W.run_fn("mantra_dex_std::coin::aggregate_coins")
        finally:
            sem.LOCAL_PRIMITIVES.update(saved)
        el = vfield(H.ret if H.ret is not None else EMPTY, "[*]")
        am = {o for o in all_origins(vfield(el, "amount")) if not o.startswith("Const(")}
        dn = {o for o in all_origins(vfield(el, "denom")) if not o.startswith("Const(")}
        ops = set()
        for (o, oo) in flat_atoms(vfield(el, "amount")):
            ops |= oo
        chk.expect(am == {"coins[*].amount"} and dn == {"coins[*].denom"} and not (ops - {"add", "*"}), "SEM-rederive", "aggregate_coins",
                   "output coins carry only input amounts (summed) under input denoms", "aggregate_coins: amounts %s denoms %s ops %s" % (sorted(am), sorted(dn), sorted(ops)), H.entry)
    if "get_current_epoch" in which:
        saved = dict(sem.LOCAL_PRIMITIVES)
        sem.LOCAL_PRIMITIVES.clear()
        try:
            H = W.run_fn("mantra_dex_std::epoch_manager::get_current_epoch")
        finally:
            sem.LOCAL_PRIMITIVES.update(saved)
        q = H.calls(r"query_wasm_smart$")
        ok = len(q) == 1 and exact_origins(q[0].extra["dargs"][1]) == {"epoch_manager_addr"} and \
            all(o.startswith("Query(") for o in all_origins(H.ret if H.ret is not None else EMPTY))
        chk.expect(ok, "SEM-rederive", "get_current_epoch", "one smart query to the given epoch manager; returns its epoch",
                   "get_current_epoch: %d queries, ret %s" % (len(q), sorted(all_origins(H.ret if H.ret is not None else EMPTY))), H.entry)
    if "validate_addr_or_default" in which:
        H = W.run_fn("mantra_dex_std::common::validate_addr_or_default")
        o = all_origins(H.ret if H.ret is not None else EMPTY)
        chk.expect(o == {"unvalidated", "default"}, "SEM-rederive", "validate_addr_or_default", "returns the validated address or the default",
                   "validate_addr_or_default returns %s" % sorted(o), H.entry)
    if "pool_fee_is_valid" in which:
        for b in W.F.fns("mantra_dex_std"):
            if re.search(r"::fee::\{impl#\d+\}::is_valid$", b.id) and "PoolFee" in " ".join(b.locals[:2]):
                H = W.run_fn(b.id)
                seen = set()
                for e in H.switches():
                    for a in e.vals[0].atoms:
                        if isinstance(a[0], tuple) and a[0][0] == "pred" and a[0][1] in ("ge", "gt"):
                            seen.add((a[0][1], tuple(sorted(exact_origins(a[0][3])))))
                chk.expect(("ge", ("Const(percent:100_u64)",)) in seen and ("gt", ("Const(percent:20_u64)",)) in seen, "SEM-rederive", "PoolFee::is_valid",
                           "each fee < 100%, total <= 20%", "PoolFee::is_valid comparisons: %s" % sorted(seen), H.entry)
    if "mint_burn_wiring" in which:
        H = W.run_fn("mantra_dex_std::lp_common::mint_lp_token_msg")
        m = H.calls_id(r"tokenfactory::mint::mint$")
        ok = len(m) == 1 and exact_origins(m[0].extra["dargs"][0]) == {"sender"} and exact_origins(m[0].extra["dargs"][2]) == {"recipient"}
        c = m[0].extra["dargs"][1] if m else EMPTY
        ok = ok and exact_origins(vfield(c, "amount")) == {"amount"} and exact_origins(vfield(c, "denom")) == {"liquidity_asset"}
        chk.expect(ok, "SEM-rederive", "mint_lp_token_msg", "mint(sender, coin(amount, lp denom), recipient)", "mint_lp_token_msg wiring %s" % [base.show(x)[:80] for x in (m[0].extra["dargs"] if m else [])], H.entry)
        H = W.run_fn("mantra_dex_std::lp_common::burn_lp_asset_msg")
        m = H.calls_id(r"tokenfactory::burn::burn$")
        ok = len(m) == 1 and exact_origins(m[0].extra["dargs"][0]) == {"sender"}
        c = m[0].extra["dargs"][1] if m else EMPTY
        ok = ok and exact_origins(vfield(c, "amount")) == {"amount"} and exact_origins(vfield(c, "denom")) == {"liquidity_asset"}
        chk.expect(ok, "SEM-rederive", "burn_lp_asset_msg", "burn(sender, coin(amount, lp denom))", "burn_lp_asset_msg wiring differs", H.entry)


REDERIVE = {
    "C01": ["aggregate_coins", "validate_addr_or_default", "mint_burn_wiring"],
    "C02": ["mint_burn_wiring"],
    "C04": ["validate_addr_or_default"],
    "C05": ["aggregate_coins", "get_current_epoch"],
    "C06": ["get_current_epoch"],
    "C07": ["get_current_epoch", "aggregate_coins"],
    "C10": ["get_current_epoch"],
    "C11": ["get_current_epoch"],
    "C16": ["pool_fee_is_valid"],
}


def run(pid, W, chk):
    if pid in REDERIVE:
        rederive(W, chk, REDERIVE[pid])
    if pid in ("C12", "C20"):
        witnesses(chk)
    clean = not chk.violations()
    mutation_selftest(pid, chk)
    if clean:
        refactor_selftest(pid, chk)
