"""Fact base: loads the JSON emitted by the mdx-facts driver and indexes bodies.

A Body is one MIR body (fn, closure, const).  Places are (local, proj) with proj a tuple of
tokens: ('d',) deref, ('f', name) field, ('i',) index, ('dc', variant) downcast.
"""
import json
import os

CRATES = ["pool_manager", "farm_manager", "epoch_manager", "fee_collector",
          "mantra_dex_std", "mantra_utils"]
CONTRACTS = ["pool_manager", "farm_manager", "epoch_manager", "fee_collector"]


def place(js):
    proj = []
    for e in js["p"]:
        k = e[0]
        if k == "d":
            proj.append(("d",))
        elif k == "f":
            proj.append(("f", e[1], e[3] if len(e) > 3 else ""))
        elif k == "i":
            proj.append(("i", "l", e[1]))
        elif k == "ci":
            proj.append(("i", "c", e[1], bool(e[2])))
        elif k == "sub":
            proj.append(("i",))
        elif k == "dc":
            proj.append(("dc", e[1], e[3] if len(e) > 3 else ""))
        else:
            proj.append((k,))
    return (js["l"], tuple(proj))


class Body:
    __slots__ = ("id", "name", "kind", "span", "argc", "locals", "vars", "blocks", "root",
                 "parent", "vis", "crate", "succ", "pred", "varname")

    def __init__(self, js, crate):
        self.crate = crate
        self.id = js["id"]
        self.name = js["name"]
        self.kind = js["kind"]
        self.span = js["span"]
        self.argc = js["argc"]
        self.locals = js["locals"]
        self.vars = [(n, place(p)) for n, p in js["vars"]]
        self.blocks = js["blocks"]
        self.root = js.get("root")
        self.parent = js.get("parent")
        self.vis = js.get("vis")
        self.varname = {}
        for n, (l, proj) in self.vars:
            if not proj and l not in self.varname:
                self.varname[l] = n
        self._cfg()

    def _cfg(self):
        n = len(self.blocks)
        self.succ = [[] for _ in range(n)]
        for i, b in enumerate(self.blocks):
            if b["cleanup"]:
                continue
            t = b["term"]
            k = t["k"]
            if k == "goto" or k == "drop" or k == "assert":
                self.succ[i] = [t["t"]]
            elif k == "switch":
                s = [tb for _, tb in t["targets"]] + [t["otherwise"]]
                self.succ[i] = s
            elif k == "call":
                self.succ[i] = [t["t"]] if t["t"] is not None else []
            else:
                self.succ[i] = []
        self.pred = [[] for _ in range(n)]
        for i, ss in enumerate(self.succ):
            for s in ss:
                self.pred[s].append(i)

    def file(self):
        return self.span.rsplit(":", 1)[0]

    def __repr__(self):
        return "<Body %s>" % self.id


class Facts:
    def __init__(self, directory):
        self.dir = directory
        self.bodies = {}
        self.by_crate = {}
        for c in CRATES:
            p = os.path.join(directory, c + ".json")
            if not os.path.exists(p):
                raise FileNotFoundError("missing fact file for crate %s: %s" % (c, p))
            with open(p) as f:
                d = json.load(f)
            lst = []
            for bj in d["bodies"]:
                b = Body(bj, c)
                self.bodies[b.id] = b
                lst.append(b)
            self.by_crate[c] = lst
        # closures by parent
        self.children = {}
        for b in self.bodies.values():
            if b.kind == "closure" and b.parent:
                self.children.setdefault(b.parent, []).append(b.id)

    def get(self, fid):
        return self.bodies.get(fid)

    def fns(self, crate=None):
        for b in self.bodies.values():
            if crate is None or b.crate == crate:
                yield b

    def const_literal(self, cid, depth=0):
        """If const body `cid` is `_0 = const <literal>; return`, return the literal text (following `const A: T = B;` aliases)."""
        b = self.bodies.get(cid)
        if b is None or depth > 6:
            return None
        for blk in b.blocks:
            for st in blk["stmts"]:
                if st["k"] == "assign" and st["lhs"]["l"] == 0 and not st["lhs"]["p"]:
                    rv = st["rv"]
                    if rv["k"] == "use" and rv["op"]["k"] == "const":
                        if "def" in rv["op"] and "promoted" not in rv["op"] and len(b.blocks) == 1:
                            r = self.const_literal(rv["op"]["def"], depth + 1)
                            if r is not None:
                                return r
                        return rv["op"]["text"]
        return None


# ---------------------------------------------------------------- pretty printer

def pp_place(b, p):
    l, proj = p
    s = b.varname.get(l)
    s = "%s#%d" % (s, l) if s else "_%d" % l
    for e in proj:
        if e[0] == "d":
            s = "(*%s)" % s
        elif e[0] == "f":
            s = "%s.%s" % (s, e[1])
        elif e[0] == "i":
            s = "%s[*]" % s
        elif e[0] == "dc":
            s = "(%s as %s)" % (s, e[1])
        else:
            s = "%s<%s>" % (s, e[0])
    return s


def pp_op(b, o):
    if o["k"] in ("copy", "move"):
        return ("move " if o["k"] == "move" else "") + pp_place(b, place(o["place"]))
    if o["k"] == "const":
        return o["text"] if "def" not in o else "const{%s}" % o["def"]
    return "?" + o.get("text", "")


def pp_rv(b, rv):
    k = rv["k"]
    if k == "use":
        return pp_op(b, rv["op"])
    if k == "ref":
        return ("&mut " if rv["mut"] else "&") + pp_place(b, place(rv["place"]))
    if k == "bin":
        return "%s(%s, %s)" % (rv["op"], pp_op(b, rv["a"]), pp_op(b, rv["b"]))
    if k == "un":
        return "%s(%s)" % (rv["op"], pp_op(b, rv["a"]))
    if k == "cast":
        return "%s as %s [%s]" % (pp_op(b, rv["op"]), rv["ty"], rv["ck"])
    if k == "discr":
        return "discr(%s)" % pp_place(b, place(rv["place"]))
    if k == "agg":
        ops = [pp_op(b, o) for o in rv["ops"]]
        if rv["agg"] == "adt":
            fl = rv["fields"]
            return "%s::%s{%s}" % (rv["name"], rv["variant"],
                                   ", ".join("%s: %s" % (f, o) for f, o in zip(fl, ops)))
        if rv["agg"] == "closure":
            return "closure{%s}(%s)" % (rv["def"], ", ".join(ops))
        return "%s(%s)" % (rv["agg"], ", ".join(ops))
    if k == "repeat":
        return "[%s; n]" % pp_op(b, rv["op"])
    return "?%s" % rv.get("text", k)


def pp_body(b):
    out = ["fn %s  [%s] argc=%d" % (b.id, b.span, b.argc)]
    for i, blk in enumerate(b.blocks):
        if blk["cleanup"]:
            continue
        out.append(" bb%d:" % i)
        for st in blk["stmts"]:
            if st["k"] == "assign":
                out.append("    %s = %s   // %s" % (pp_place(b, place(st["lhs"])),
                                                   pp_rv(b, st["rv"]), st["span"].rsplit("/", 1)[-1]))
            else:
                out.append("    %s" % st["k"])
        t = blk["term"]
        k = t["k"]
        if k == "call":
            fn = t.get("resolved") or t.get("callee") or "indirect"
            out.append("    %s = CALL %s(%s) -> bb%s   // %s%s" % (
                pp_place(b, place(t["dest"])), fn, ", ".join(pp_op(b, a) for a in t["args"]),
                t["t"], t["span"].rsplit("/", 1)[-1],
                " [id=%s]" % t.get("resolved_id") if t.get("resolved_id") else ""))
        elif k == "switch":
            out.append("    switch %s -> %s else bb%d" % (
                pp_op(b, t["op"]), ", ".join("%s:bb%d" % (v, tb) for v, tb in t["targets"]),
                t["otherwise"]))
        elif k in ("goto", "drop", "assert"):
            out.append("    %s -> bb%d" % (k, t["t"]))
        else:
            out.append("    %s" % k)
    return "\n".join(out)


if __name__ == "__main__":
    import sys
    f = Facts(sys.argv[1])
    for fid in sys.argv[2:]:
        for b in f.bodies.values():
            if b.id == fid or b.id.endswith(fid):
                print(pp_body(b))
