"""Fact extraction: runs the mdx-facts driver over /repo's current working tree.

Facts are cached under /verif/build/facts/<tree-hash>/ where the hash covers every *.rs,
Cargo.toml and Cargo.lock under /repo (outside target/).  A changed tree always produces new
facts; an unchanged one lets all per-property commands share one extraction.
"""
import fcntl
import hashlib
import json
import os
import shutil
import subprocess
import sys
import time

VERIF = os.path.dirname(os.path.dirname(os.path.abspath(__file__)))
REPO = os.environ.get("MDX_REPO", "/repo")
BUILD = os.path.join(VERIF, "build")
DRIVER_TARGET = os.path.join(BUILD, "driver-target")
DRIVER = os.path.join(DRIVER_TARGET, "debug", "mdx-facts")
TARGET = os.environ.get("MDX_TARGET") or os.path.join(BUILD, "target")     # parallel tools use one cargo target dir per worker
CRATES = ["pool_manager", "farm_manager", "epoch_manager", "fee_collector", "mantra_dex_std", "mantra_utils"]
PKGS = ["pool-manager", "farm-manager", "epoch-manager", "fee-collector"]
FP_PREFIX = ["pool-manager", "farm-manager", "epoch-manager", "fee-collector", "mantra-dex-std", "mantra-utils"]


def tree_hash(repo=REPO):
    h = hashlib.sha256()
    files = []
    for root, dirs, fs in os.walk(repo):
        dirs[:] = [d for d in dirs if d not in ("target", ".git", "node_modules")]
        for f in fs:
            if f.endswith(".rs") or f in ("Cargo.toml", "Cargo.lock"):
                files.append(os.path.join(root, f))
    files.sort()
    for p in files:
        h.update(os.path.relpath(p, repo).encode())
        h.update(b"\0")
        with open(p, "rb") as fh:
            h.update(fh.read())
        h.update(b"\0")
    # the driver itself is part of the key
    dsrc = os.path.join(VERIF, "driver", "src", "main.rs")
    with open(dsrc, "rb") as fh:
        h.update(fh.read())
    return h.hexdigest()[:24]


def sysroot():
    return subprocess.check_output(["rustc", "+nightly", "--print", "sysroot"], text=True).strip()


def build_driver(log=sys.stderr):
    env = dict(os.environ, CARGO_TARGET_DIR=DRIVER_TARGET, CARGO_NET_OFFLINE="true")
    r = subprocess.run(["cargo", "+nightly", "build", "--offline"], cwd=os.path.join(VERIF, "driver"),
                       env=env, stdout=subprocess.PIPE, stderr=subprocess.STDOUT, text=True)
    if r.returncode != 0 or not os.path.exists(DRIVER):
        log.write(r.stdout)
        raise RuntimeError("driver build failed")


def prune(path):
    """Drop derive-generated bodies (serde / schemars / Debug) from a fact file: never reached
    from contract code except through external generic code that the engine does not enter."""
    with open(path) as f:
        d = json.load(f)
    keep = []
    for b in d["bodies"]:
        i = b["id"]
        if "::_::" in i or "::_#" in i:
            continue
        keep.append(b)
    d["n_bodies_all"] = d["n_bodies"]
    d["bodies"] = keep
    d["n_bodies"] = len(keep)
    with open(path + ".tmp", "w") as f:
        json.dump(d, f, separators=(",", ":"))
    os.replace(path + ".tmp", path)


def extract(repo=REPO, force=False, log=sys.stderr):
    """Returns (facts_dir, info)."""
    os.makedirs(os.path.join(BUILD, "facts"), exist_ok=True)
    th = tree_hash(repo)
    out = os.path.join(BUILD, "facts", th)
    lockp = os.path.join(BUILD, "extract.lock") if not os.environ.get("MDX_TARGET") else TARGET.rstrip("/") + ".lock"
    t0 = time.time()
    with open(lockp, "w") as lk:
        fcntl.flock(lk, fcntl.LOCK_EX)
        done = os.path.join(out, "DONE.json")
        if os.path.exists(done) and not force:
            with open(done) as f:
                info = json.load(f)
            info["cached"] = True
            return out, info
        if not os.path.exists(DRIVER):
            build_driver(log)
        tmp = out + ".part"
        shutil.rmtree(tmp, ignore_errors=True)
        os.makedirs(tmp)
        # cargo's freshness cache would skip the wrapper: drop the fingerprints of the analysed crates
        fpd = os.path.join(TARGET, "debug", ".fingerprint")
        if os.path.isdir(fpd):
            for d in os.listdir(fpd):
                if any(d.startswith(p + "-") for p in FP_PREFIX):
                    shutil.rmtree(os.path.join(fpd, d), ignore_errors=True)
        env = dict(os.environ)
        env.update({
            "LD_LIBRARY_PATH": os.path.join(sysroot(), "lib") + ":" + env.get("LD_LIBRARY_PATH", ""),
            "RUSTFLAGS": "-Zmir-opt-level=0 -Awarnings",
            "RUSTC_WRAPPER": DRIVER,
            "MDX_CRATES": ",".join(CRATES),
            "MDX_OUT": tmp,
            "CARGO_TARGET_DIR": TARGET,
            "CARGO_NET_OFFLINE": "true",
        })
        env.pop("RUSTC_WORKSPACE_WRAPPER", None)
        cmd = ["cargo", "+nightly", "check", "--offline", "--lib"]
        for p in PKGS:
            cmd += ["-p", p]
        r = subprocess.run(cmd, cwd=repo, env=env, stdout=subprocess.PIPE, stderr=subprocess.STDOUT, text=True)
        if r.returncode != 0:
            log.write(r.stdout[-6000:])
            raise RuntimeError("cargo check (fact extraction) failed: the tree does not compile")
        counts = {}
        for c in CRATES:
            p = os.path.join(tmp, c + ".json")
            if not os.path.exists(p):
                raise RuntimeError("driver produced no facts for crate %s (stale cargo cache?)" % c)
            prune(p)
            with open(p) as f:
                counts[c] = json.load(f)["n_bodies"]
        info = {"tree_hash": th, "counts": counts, "extract_s": round(time.time() - t0, 2), "cached": False}
        with open(os.path.join(tmp, "DONE.json"), "w") as f:
            json.dump(info, f)
        shutil.rmtree(out, ignore_errors=True)
        os.replace(tmp, out)
        # keep the cache small: retain the 6 most recent fact sets
        base = os.path.join(BUILD, "facts")
        ds = sorted((os.path.getmtime(os.path.join(base, d)), d) for d in os.listdir(base)
                    if os.path.isdir(os.path.join(base, d)) and not d.endswith(".part"))
        for _, d in ds[:-12]:
            shutil.rmtree(os.path.join(base, d), ignore_errors=True)
        return out, info


if __name__ == "__main__":
    d, info = extract(force="--force" in sys.argv)
    print(d, json.dumps(info))
