"""Abstract interpreter over MIR facts (engine P+G of DESIGN.md, unified).

Domain.  A value (Val) is a tree: `atoms` describe the whole value, `fields` override parts.
An atom is (origin, ops): origin is a string naming where the value comes from
(`info.sender`, `Store(POOLS).assets[*].amount`, `Const(1000)`, ...) or a tuple for structured
things: ('ref', objid, path), ('closure', def_id), ('fnitem', def_id, name),
('pred', name, args...).  `ops` is the frozenset of operator classes applied since the origin
(empty = exact copy).  Pseudo fields start with '#': '#v:<adt>' (variant tag), '#call' (callee
that produced the value), '#part' (partition side).

Execution.  Whole-program by inlining: every local callee is analysed at each call site with the
current abstract store (objid -> Val), so constants (is_claim, fill), message variants and
Result variants propagate and prune infeasible switch edges.  A Policy can remove further edges
(guard cuts, assumed configurations) and make functions opaque.  All calls / aggregates are
logged as events with their operand values; rules read the event log.
"""
import heapq
import re
import sys
from facts import place as mkplace

sys.setrecursionlimit(10000)

TRANSPARENT_ENUMS = {"std::option::Option", "std::result::Result", "std::ops::ControlFlow"}
TRANSPARENT_STRUCTS = {"std::boxed::Box", "std::ptr::Unique", "std::mem::MaybeUninit",
                       "std::mem::ManuallyDrop", "std::mem::MaybeDangling", "std::ptr::NonNull",
                       "std::pin::Pin"}
MAX_ORIGIN_SEGS = 9
MAX_DEPTH = 60


class Val:
    __slots__ = ("atoms", "fields", "_h")

    def __init__(self, atoms=frozenset(), fields=None):
        self.atoms = atoms if isinstance(atoms, frozenset) else frozenset(atoms)
        self.fields = fields or {}
        self._h = None

    def __hash__(self):
        if self._h is None:
            self._h = hash((self.atoms, tuple(sorted((k, hash(v)) for k, v in self.fields.items()))))
        return self._h

    def __eq__(self, o):
        if self is o:
            return True
        if not isinstance(o, Val):
            return False
        if hash(self) != hash(o):
            return False
        return self.atoms == o.atoms and self.fields == o.fields

    def is_empty(self):
        return not self.atoms and not self.fields

    def __repr__(self):
        return show(self)


EMPTY = Val()
NOOPS = frozenset()
FMT = frozenset(["fmt"])
STAR = frozenset(["*"])


def A(origin, *ops):
    return (origin, frozenset(ops))


def V(*origins):
    return Val(frozenset((o, NOOPS) for o in origins))


def is_data(atom):
    return isinstance(atom[0], str)


def show_atom(a, depth=0):
    o, ops = a
    if isinstance(o, tuple):
        if o[0] == "ref":
            s = "&%s%s" % (objname(o[1]), "".join("." + p for p in o[2]))
        elif o[0] == "pred":
            if depth > 2:
                s = "pred:%s(..)" % o[1]
            else:
                s = "pred:%s(%s)" % (o[1], ", ".join(show(x, depth + 1) if isinstance(x, Val) else str(x)
                                                     for x in o[2:]))
        else:
            s = "%s:%s" % (o[0], o[1])
    else:
        s = o
    if ops:
        s += "{" + ",".join(sorted(ops)) + "}"
    return s


def objname(objid):
    ctx, l = objid
    return "o%d_%s" % (len(ctx), l)


def show(v, depth=0):
    if depth > 4:
        return ".."
    parts = sorted(show_atom(a, depth) for a in v.atoms)
    s = "{" + " | ".join(parts) + "}" if parts else ""
    if v.fields:
        s += "<" + ", ".join("%s=%s" % (k, show(x, depth + 1)) for k, x in sorted(v.fields.items())) + ">"
    return s or "{}"


def ext_origin(o, k):
    if k == "[*]":
        if o.endswith("[*]"):
            return o
        n = o + "[*]"
    else:
        n = o + "." + k
    if n.count(".") + n.count("[*]") > MAX_ORIGIN_SEGS:
        return o if o.endswith("~") else o + "~"
    return n


UNIT_VARIANTS = set()      # constants standing for field-less enum variants (filled by mk_adt)


def vfield(v, k):
    f = v.fields.get(k)
    if f is not None:
        return f
    if k.startswith("#"):
        return EMPTY
    at = set()
    for (o, ops) in v.atoms:
        if isinstance(o, str):
            if o.startswith("Const("):
                # constants have no parts: empty collections / unit yield nothing, named items stay
                if o in ("Const(empty)", "Const(default)", "Const(())", "Const(error)") or o in UNIT_VARIANTS:
                    continue      # (a field-less enum variant has no parts either: `Mode::Full` joined with `Mode::Partial(x)`)
                at.add((o, ops))
                continue
            at.add((ext_origin(o, k), ops))
        elif o[0] in ("ref",):
            # field of a pointer value: keep pointer (auto-deref handled by callers)
            pass
    return Val(frozenset(at)) if at else EMPTY


def vjoin(a, b):
    if a is b or b.is_empty():
        return a
    if a.is_empty():
        return b
    if a == b:
        return a
    if b.atoms <= a.atoms:
        atoms = a.atoms
        if (not a.fields and not b.fields) or (a.fields is b.fields):
            return a
    elif a.atoms <= b.atoms:
        atoms = b.atoms
        if (not a.fields and not b.fields) or (a.fields is b.fields):
            return b
    else:
        atoms = norm_atoms(a.atoms | b.atoms)
    fields = {}
    for k in set(a.fields) | set(b.fields):
        fa = a.fields.get(k)
        fb = b.fields.get(k)
        if k.startswith("#"):
            if fa is not None and fb is not None:
                fields[k] = vjoin(fa, fb)
            elif k.startswith("#may:"):
                fields[k] = fa if fa is not None else fb
            elif k == "#uniq" and "[*]" not in (b if fa is not None else a).fields:
                fields[k] = fa if fa is not None else fb      # joined with an empty collection (`vec![]`): still duplicate-free
            # other tags known on one side only: unknown after the join -> dropped
            continue
        if fa is None:
            fa = vfield(a, k)
        if fb is None:
            fb = vfield(b, k)
        fields[k] = vjoin(fa, fb)
    return Val(atoms, fields)


def norm_atoms(atoms):
    """Widening on operator sets: an origin with many distinct op-sets keeps its exact atom and
    one atom carrying the union of the others."""
    if len(atoms) <= 40:
        return atoms
    by = {}
    for a in atoms:
        by.setdefault(a[0], []).append(a[1])
    out = set()
    for o, l in by.items():
        if len(l) <= 2:
            for x in l:
                out.add((o, x))
        else:
            un = frozenset()
            for x in l:
                if x:
                    un = un | x
                else:
                    out.add((o, x))
            out.add((o, un))
    return frozenset(out)


def vjoin_all(vals):
    r = EMPTY
    for v in vals:
        r = vjoin(r, v)
    return r


def vset(v, path, new, strong):
    if not path:
        return new if strong else vjoin(v, new)
    k = path[0]
    child = v.fields.get(k)
    if child is None:
        child = vfield(v, k)
    nc = vset(child, path[1:], new, strong and k != "[*]")
    f = dict(v.fields)
    f[k] = nc
    return Val(v.atoms, f)


def vget(v, path):
    for k in path:
        v = vfield(v, k)
    return v


def with_tag(v, tag, tv):
    f = dict(v.fields)
    f[tag] = tv
    return Val(v.atoms, f)


def without_tags(v):
    """drop the must-tags (variant, callee, uniqueness ...) of a value that went through a combinator; the may-tags (what selected /
    permuted / positioned the value) stay, they describe the data and not the wrapper"""
    if not any(k.startswith("#") and not k.startswith("#may:") for k in v.fields):
        return v
    return Val(v.atoms, {k: x for k, x in v.fields.items() if not k.startswith("#") or k.startswith("#may:")})


def const_of(v):
    """If v is exactly one exact Const atom (no data fields), return its text, else None."""
    if len(v.atoms) != 1 or any(not k.startswith("#") for k in v.fields):
        return None
    (o, ops), = v.atoms
    if ops or not isinstance(o, str) or not o.startswith("Const("):
        return None
    return o[6:-1]


def tagvals(v, tag):
    t = v.fields.get(tag)
    if t is None:
        return None
    out = set()
    for (o, ops) in t.atoms:
        if isinstance(o, str) and o.startswith("Const("):
            out.add(o[6:-1])
        else:
            return None
    return out


class Event:
    __slots__ = ("ctx", "fn", "bb", "idx", "kind", "name", "vals", "span", "extra", "dest")

    def __init__(self, ctx, fn, bb, idx, kind, name, vals, span, extra=None, dest=None):
        self.ctx = ctx
        self.fn = fn
        self.bb = bb
        self.idx = idx
        self.kind = kind      # 'call' | 'agg' | 'switch' | 'storage'
        self.name = name
        self.vals = vals
        self.span = span
        self.extra = extra or {}
        self.dest = dest

    def chain(self):
        return [c[0] for c in self.ctx] + [self.fn]

    def __repr__(self):
        return "<Ev %s %s @%s %s>" % (self.kind, self.name, self.span, [show(v) for v in self.vals][:4])


# numeric kernels: summarised (result derived from the arguments) unless a policy says otherwise
KERNELS = frozenset([
    "pool_manager::helpers::calculate_stableswap_y", "pool_manager::helpers::calculate_stableswap_d",
    "pool_manager::helpers::calculate_d_core", "pool_manager::helpers::compute_next_d",
    "pool_manager::helpers::dynamic_fee", "pool_manager::helpers::compute_y_raw",
    "pool_manager::helpers::newton_raphson_iterate",
])


# first-party code that is treated like an external library (classified by the semantics table)
EXTERNAL_PREFIXES = ("mantra_dex_std::uints::",)


def _int_width(ty):
    m = re.match(r"^[ui](8|16|32|64|128)$", ty or "")
    if m:
        return int(m.group(1))
    return 64 if ty in ("usize", "isize") else None


class Policy:
    """Default policy: no extra pruning, nothing opaque."""
    opaque = frozenset()
    summarize = KERNELS

    def filter_edges(self, interp, fn, bb, opval, labels):
        """labels: list of (label, target, variant_name|None). Return iterable of allowed targets
        or None for all."""
        return None

    def on_event(self, ev):
        pass

    def on_return(self, interp, name, ret):
        """value assumptions: may replace the result of a call (e.g. assume a predicate-valued call returned true)"""
        return ret


class Frame:
    __slots__ = ("ctx", "body")

    def __init__(self, ctx, body):
        self.ctx = ctx
        self.body = body

    def obj(self, l):
        return (self.ctx, l)


class Interp:
    def __init__(self, facts, policy=None, sem=None):
        self.F = facts
        self.policy = policy or Policy()
        import sem as semmod
        self.sem = sem or semmod
        self.events = {}
        self.reached = set()      # (ctx, fn, bb)
        self.warnings = []
        self.fn_instances = 0
        self.block_visits = 0
        self.unhandled = {}
        self.memo = {}
        self.memo_hits = 0
        self.debug_cap = None

    def warn(self, msg):
        if len(self.warnings) < 500:
            self.warnings.append(msg)

    # ------------------------------------------------------------ store helpers
    def load_ref(self, store, ratom):
        _, objid, path = ratom[0]
        v = store.get(objid, EMPTY)
        return vget(v, path)

    def deref(self, store, val):
        """Pointee of a pointer value: join over ref atoms; data atoms pass through (auto-deref)."""
        out = EMPTY
        rest = set()
        for a in val.atoms:
            o = a[0]
            if isinstance(o, tuple):
                if o[0] == "ref":
                    out = vjoin(out, self.load_ref(store, a))
                else:
                    rest.add(a)
            else:
                rest.add(a)
        if rest or val.fields:
            out = vjoin(out, Val(frozenset(rest), {k: v for k, v in val.fields.items()}))
        return out

    def deref_full(self, store, val, depth=0):
        """Follow pointers until a non-pointer value."""
        while depth < 6 and any(isinstance(a[0], tuple) and a[0][0] == "ref" for a in val.atoms):
            val = self.deref(store, val)
            depth += 1
        return val

    def snapshot(self, store, val, depth=0):
        """Value with every pointer (at any depth) replaced by what it points to."""
        if depth > 5:
            return val
        v = self.deref_full(store, val) if self.refs_of(val) else val
        if not v.fields:
            return v
        ch = False
        nf = {}
        for k, f in v.fields.items():
            if k.startswith("#"):
                nf[k] = f
                continue
            g = self.snapshot(store, f, depth + 1)
            if g is not f:
                ch = True
            nf[k] = g
        return Val(v.atoms, nf) if ch else v

    def refs_of(self, val):
        return [a for a in val.atoms if isinstance(a[0], tuple) and a[0][0] == "ref"]

    def flat(self, store, v, depth=0, seen=None):
        """All data atoms reachable in v (through fields and pointers)."""
        out = set()
        if depth > 6:
            return out
        for a in v.atoms:
            o = a[0]
            if isinstance(o, str):
                out.add(a)
            elif o[0] == "ref":
                if seen is None:
                    seen = set()
                if o in seen:
                    continue
                seen.add(o)
                out |= self.flat(store, self.load_ref(store, a), depth + 1, seen)
            elif o[0] == "pred":
                for x in o[2:]:
                    if isinstance(x, Val):
                        for (oo, ops) in self.flat(store, x, depth + 1, seen):
                            out.add((oo, ops | {"cmp"}))
            elif o[0] == "closure":
                pass
        for k, f in v.fields.items():
            if k.startswith("#"):
                if k == "#may:key":
                    # what selected this value (storage key / range bound / query argument)
                    for (oo, ops) in self.flat(store, f, depth + 1, seen):
                        out.add((oo, ops | {"key"}))
                continue
            out |= self.flat(store, f, depth + 1, seen)
        return out

    def derive(self, store, vals, op):
        at = set()
        for v in vals:
            for (o, ops) in self.flat(store, v):
                if ops and o.startswith("Const("):
                    at.add((o, STAR))   # constants keep their identity, not their operator history
                    continue
                if op == "fmt":
                    at.add((o, FMT))   # formatting: only the origin matters
                else:
                    at.add((o, ops | {op}))
        return Val(norm_atoms(frozenset(at)))

    def write_through(self, store, refval, newval, strong=False, path=()):
        """Write newval into the pointee(s) of refval (at sub-path)."""
        refs = self.refs_of(refval)
        one = len(refs) == 1
        for a in refs:
            _, objid, p = a[0]
            full = tuple(p) + tuple(path)
            st = strong and one and "[*]" not in full
            store[objid] = vset(store.get(objid, EMPTY), full, newval, st)
        return bool(refs)

    def reachable(self, store, vals):
        """objids reachable from the ref atoms of vals (through the store), sorted."""
        seen = set()
        work = list(vals)
        n = 0
        while work and n < 4000:
            v = work.pop()
            n += 1
            for a in v.atoms:
                o = a[0]
                if isinstance(o, tuple):
                    if o[0] == "ref":
                        if o[1] not in seen:
                            seen.add(o[1])
                            work.append(store.get(o[1], EMPTY))
                    elif o[0] == "pred":
                        for x in o[2:]:
                            if isinstance(x, Val):
                                work.append(x)
            for f in v.fields.values():
                work.append(f)
        return sorted(seen, key=repr)

    # ------------------------------------------------------------ places
    def _resolve(self, store, frame, pl):
        local, proj = pl
        items = [("L", frame.obj(local), ())]
        idx = None
        for tok in proj:
            k = tok[0]
            new = []
            if k == "d":
                for it in items:
                    v = vget(store.get(it[1], EMPTY), it[2]) if it[0] == "L" else it[1]
                    rest = set()
                    for a in v.atoms:
                        o = a[0]
                        if isinstance(o, tuple) and o[0] == "ref":
                            new.append(("L", o[1], tuple(o[2])))
                        else:
                            rest.add(a)
                    if rest or v.fields:
                        new.append(("V", Val(frozenset(rest), v.fields)))
                items = new
                continue
            if k == "f":
                name, adt = tok[1], tok[2]
                if adt in TRANSPARENT_STRUCTS or adt in TRANSPARENT_ENUMS:
                    continue
                key = name
            elif k == "dc":
                name, adt = tok[1], tok[2]
                if adt in TRANSPARENT_ENUMS:
                    continue
                key = name
            elif k == "i":
                key = "[*]"
                if len(tok) > 2 and tok[1] == "l":
                    c = const_of(self.read_place(store, frame, (tok[2], ())))
                    if c is not None:
                        idx = V("Const(%s)" % c)
                elif len(tok) > 2 and tok[1] == "c":
                    idx = V("Const(%s%s_usize)" % ("-" if tok[3] else "", tok[2]))
            else:
                continue
            for it in items:
                if it[0] == "L":
                    new.append(("L", it[1], it[2] + (key,)))
                else:
                    new.append(("V", vfield(it[1], key)))
            items = new
        if idx is not None:   # element at a constant position: the position is remembered on the value read ('#idx')
            items.append(("V", Val(frozenset(), {"#may:idx": idx})))
        return items

    def read_place(self, store, frame, pl):
        out = EMPTY
        for it in self._resolve(store, frame, pl):
            if it[0] == "L":
                out = vjoin(out, vget(store.get(it[1], EMPTY), it[2]))
            else:
                out = vjoin(out, it[1])
        return out

    def write_place(self, store, frame, pl, val):
        items = [it for it in self._resolve(store, frame, pl) if it[0] == "L"]
        if not items:
            return
        strong = len(items) == 1 and "[*]" not in items[0][2]
        for it in items:
            store[it[1]] = vset(store.get(it[1], EMPTY), it[2], val, strong)

    def ref_place(self, store, frame, pl):
        atoms = set()
        extra = EMPTY
        for it in self._resolve(store, frame, pl):
            if it[0] == "L":
                atoms.add((("ref", it[1], tuple(it[2])), NOOPS))
            else:
                extra = vjoin(extra, it[1])   # reference to unknown pointee: keep the data atoms
        return vjoin(Val(frozenset(atoms)), extra)

    # ------------------------------------------------------------ operands / rvalues
    def operand(self, store, frame, o):
        k = o["k"]
        if k in ("copy", "move"):
            return self.read_place(store, frame, mkplace(o["place"]))
        if k == "const":
            if "fn" in o:
                return Val(frozenset([(("fnitem", o["fn"], o["text"]), NOOPS)]))
            if "def" in o and "promoted" in o:
                pb = self.F.get("%s::promoted[%s]" % (o["def"], o["promoted"]))
                if pb is not None and len(frame.ctx) < MAX_DEPTH:
                    rv, _ = self.call_body(pb, frame.ctx, [], dict(store), (frame.body.id, -7, int(o["promoted"])))
                    if rv is not None:
                        return rv
            if "def" in o and "promoted" not in o:
                d = o["def"]
                lit = self.F.const_literal(d)
                if lit is not None and self.F.get(d) is not None and len(self.F.get(d).blocks) == 1:
                    return V("Const(%s)" % norm_const(lit))
                return V("Const(%s)" % d)
            return V("Const(%s)" % norm_const(o["text"]))
        return EMPTY

    def rvalue(self, store, frame, rv, lhs_ty=None):
        k = rv["k"]
        if k == "use":
            return self.operand(store, frame, rv["op"])
        if k == "ref":
            return self.ref_place(store, frame, mkplace(rv["place"]))
        if k == "cast":
            v = self.operand(store, frame, rv["op"])
            if rv.get("ck") == "IntToInt" and rv["op"].get("k") in ("copy", "move") and not rv["op"]["place"]["p"]:
                # a narrowing `as` cast truncates: operator class 'wrap'
                src = frame.body.locals[rv["op"]["place"]["l"]] if rv["op"]["place"]["l"] < len(frame.body.locals) else ""
                ws, wt = _int_width(src), _int_width(rv.get("ty", ""))
                if ws and wt and wt < ws:
                    return self.derive(store, [v], "wrap")
            return v
        if k == "bin":
            a = self.operand(store, frame, rv["a"])
            b = self.operand(store, frame, rv["b"])
            op = rv["op"]
            base = op.replace("WithOverflow", "").replace("Unchecked", "")
            if base in ("Eq", "Ne", "Lt", "Le", "Gt", "Ge"):
                return mkpred(base.lower(), a, b)
            if base == "Cmp":
                return mkpred("cmp", a, b)
            cls = {"Add": "add", "Sub": "sub", "Mul": "mul", "Div": "div_floor", "Rem": "rem"}.get(base, "bit")
            if cls in ("sub", "div_floor", "rem"):
                pre = "sub" if cls == "sub" else "div"
                da = self.derive(store, [a], cls)
                db = self.derive(store, [b], cls)
                d = vjoin(Val(frozenset((o, ops | {pre + ":l"}) for (o, ops) in da.atoms)),
                          Val(frozenset((o, ops | {pre + ":r"}) for (o, ops) in db.atoms)))
            else:
                d = self.derive(store, [a, b], cls)
            if "WithOverflow" in op:
                return Val(frozenset(), {"0": d, "1": mkpred("overflow", a, b)})
            return d
        if k == "un":
            a = self.operand(store, frame, rv["a"])
            if rv["op"] == "Not":
                if any(isinstance(x[0], tuple) and x[0][0] == "pred" for x in a.atoms) or True:
                    return Val(frozenset([(("pred", "not", a), NOOPS)]))
            if rv["op"] == "PtrMetadata":
                return self.derive(store, [a], "len")
            return self.derive(store, [a], "neg")
        if k == "discr":
            v = self.read_place(store, frame, mkplace(rv["place"]))
            variants = tuple((a, b) for a, b in rv.get("variants", []))
            return Val(frozenset([(("pred", "discr", v, rv.get("adt", ""), variants), NOOPS)]))
        if k == "agg":
            ops = [self.operand(store, frame, o) for o in rv["ops"]]
            agg = rv["agg"]
            if agg == "adt":
                return self.mk_adt(rv["name"], rv["variant"], rv["fields"], ops, rv.get("active"))
            if agg == "tuple":
                return Val(frozenset(), {str(i): o for i, o in enumerate(ops)}) if ops else V("Const(())")
            if agg == "array":
                f = {"[*]": vjoin_all(ops)}
                if ops:
                    f["#nonempty"] = V("Const(%d)" % len(ops))
                return Val(frozenset(), f)
            if agg == "closure":
                return Val(frozenset([(("closure", rv["def"]), NOOPS)]),
                           {str(i): o for i, o in enumerate(ops)})
            return self.derive(store, ops, "agg")
        if k == "repeat":
            return Val(frozenset(), {"[*]": self.operand(store, frame, rv["op"])})
        return EMPTY

    def mk_adt(self, name, variant, fields, ops, active=None):
        tag = "#v:" + name
        if name in TRANSPARENT_ENUMS:
            if ops and variant not in ("Err", "None", "Break"):
                return with_tag(ops[0], tag, V("Const(%s)" % variant))
            # the error / absent side carries no payload (keeps Ok/Some payloads unpolluted at joins)
            return Val(frozenset(), {tag: V("Const(%s)" % variant)})
        if name in TRANSPARENT_STRUCTS:
            return ops[0] if ops else EMPTY
        is_enum = variant != short(name) or name.endswith("Msg")
        fl = {}
        if active is not None:
            fl[fields[active]] = ops[0]
        else:
            for f, o in zip(fields, ops):
                fl[f] = o
        if is_enum_name(name, variant):
            if not fl:
                UNIT_VARIANTS.add("Const(%s::%s)" % (short(name), variant))
                return Val(frozenset([("Const(%s::%s)" % (short(name), variant), NOOPS)]),
                           {tag: V("Const(%s)" % variant)})
            return Val(frozenset(), {variant: Val(frozenset(), fl), tag: V("Const(%s)" % variant)})
        if not fl:
            return V("Const(%s)" % short(name))
        return Val(frozenset(), fl)

    # ------------------------------------------------------------ running functions
    def run_entry(self, fid, args, store=None):
        body = self.F.get(fid)
        if body is None:
            raise KeyError(fid)
        store = {} if store is None else store
        ret, store = self.call_body(body, (), args, store, ("entry", 0, 0))
        return ret, store

    def call_body(self, body, ctx, args, store, site):
        """Analyse `body` in a new context; returns (return Val, store after)."""
        nctx = ctx + ((body.id, site[1], site[2]),)
        if len(nctx) > MAX_DEPTH or sum(1 for c in nctx if c[0] == body.id) > 2:
            self.warn("recursion/depth limit at %s" % body.id)
            return self.derive(store, args, "ext:recursion"), store
        # memo: same call site, same arguments, same reachable store -> same result (loop re-iterations)
        mkey = None
        reach = self.reachable(store, args)
        try:
            mkey = (nctx, tuple(hash(a) for a in args), tuple((o, hash(store.get(o, EMPTY))) for o in reach))
        except Exception:
            mkey = None
        if mkey is not None and mkey in self.memo:
            rv, delta = self.memo[mkey]
            self.memo_hits += 1
            ns = dict(store)
            ns.update(delta)
            return rv, ns
        self.fn_instances += 1
        frame = Frame(nctx, body)
        store0 = store
        store = dict(store)
        for i, a in enumerate(args):
            if i + 1 < len(body.locals):
                store[frame.obj(i + 1)] = a
        nblocks = len(body.blocks)
        instate = [None] * nblocks
        instate[0] = store
        rpo = body_rpo(body)
        work = [(rpo[0], 0)]
        inwork = {0}
        ret_states = []
        ret_vals = EMPTY
        out_ret = None
        visits = [0] * nblocks
        while work:
            _, bb = heapq.heappop(work)
            inwork.discard(bb)
            st = instate[bb]
            if st is None:
                continue
            visits[bb] += 1
            if visits[bb] > 40:
                self.warn("block visit cap in %s bb%d" % (body.id, bb))
                if self.debug_cap and visits[bb] == 41:
                    self.debug_cap(self, body, bb, instate[bb])
                continue
            self.block_visits += 1
            self.reached.add((nctx, bb))
            st = dict(st)
            succs = self.exec_block(frame, bb, st)
            if succs is None:   # return
                out_ret = st if out_ret is None else join_store(out_ret, st)
                continue
            for s in succs:
                old = instate[s]
                if old is None:
                    instate[s] = st
                    changed = True
                else:
                    ns = join_store(old, st)
                    changed = ns is not old
                    instate[s] = ns
                if changed and s not in inwork:
                    heapq.heappush(work, (rpo[s], s))
                    inwork.add(s)
        if out_ret is None:
            # function never returns normally (all paths abort/diverge)
            if mkey is not None:
                self.memo[mkey] = (None, {})
            return None, store0
        rv = out_ret.get(frame.obj(0), EMPTY)
        # drop callee-local objects
        out = {k: v for k, v in out_ret.items() if k[0] != nctx}
        # but a returned value may hold refs into callee locals (e.g. promoted temporaries): resolve
        rv = self.detach(out_ret, rv, nctx)
        if mkey is not None:
            delta = {k: v for k, v in out.items() if store0.get(k) is not v}
            self.memo[mkey] = (rv, delta)
        return rv, out

    def detach(self, store, v, nctx, depth=0):
        """Replace refs into the dying frame by the pointee's value."""
        if depth > 5:
            return v
        ch = False
        atoms = set()
        extra = EMPTY
        for a in v.atoms:
            o = a[0]
            if isinstance(o, tuple) and o[0] == "ref" and o[1][0] == nctx:
                extra = vjoin(extra, self.detach(store, self.load_ref(store, a), nctx, depth + 1))
                ch = True
            else:
                atoms.add(a)
        fields = {}
        for k, f in v.fields.items():
            nf = self.detach(store, f, nctx, depth + 1)
            if nf is not f:
                ch = True
            fields[k] = nf
        if not ch:
            return v
        return vjoin(Val(frozenset(atoms), fields), extra)

    def exec_block(self, frame, bb, st):
        body = frame.body
        blk = body.blocks[bb]
        for idx, s in enumerate(blk["stmts"]):
            if s["k"] == "assign":
                rv = s["rv"]
                val = self.rvalue(st, frame, rv)
                if rv["k"] == "agg" and rv["agg"] in ("adt",):
                    ev = Event(frame.ctx, body.id, bb, idx, "agg", rv["name"] + "::" + rv["variant"],
                               [self.operand(st, frame, o) for o in rv["ops"]], s["span"],
                               {"fields": rv["fields"]})
                    self.events[(frame.ctx, bb, idx)] = ev
                    self.policy.on_event(ev)
                self.write_place(st, frame, mkplace(s["lhs"]), val)
        t = blk["term"]
        k = t["k"]
        if k == "goto" or k == "drop" or k == "assert":
            return [t["t"]]
        if k == "return":
            return None
        if k == "switch":
            return self.exec_switch(frame, bb, st, t)
        if k == "call":
            return self.exec_call(frame, bb, st, t)
        return []

    def exec_switch(self, frame, bb, st, t):
        opv = self.operand(st, frame, t["op"])
        labels = [(v, tb) for v, tb in t["targets"]] + [("otherwise", t["otherwise"])]
        info = switch_info(opv)
        lab3 = []
        for (v, tb) in labels:
            vn = None
            if info and info.get("variants") is not None:
                vn = info["variants"].get(v)
            lab3.append((v, tb, vn))
        ev = Event(frame.ctx, frame.body.id, bb, -1, "switch", "switch", [opv], t.get("span", ""),
                   {"labels": lab3})
        self.events[(frame.ctx, bb, -1)] = ev
        allowed = None
        # 0. a discriminant switch that names every variant of the enum: the `otherwise` edge (kept by unoptimised MIR for a
        #    trailing `_` arm) is infeasible
        if info and info.get("variants"):
            allv = set(info["variants"].keys())
            if allv and allv <= {v for (v, tb) in labels[:-1]}:
                allowed = {tb for (v, tb) in labels[:-1]}
        # 1. constant / known-variant pruning
        c = const_of(opv)
        if c is not None:
            tgt = None
            cv = {"true": "1", "false": "0"}.get(c, c.split("_")[0])
            for (v, tb) in labels[:-1]:
                if v == cv:
                    tgt = tb
            if tgt is None and re.fullmatch(r"-?\d+", cv or ""):
                tgt = labels[-1][1]
            if tgt is not None:
                allowed = {tgt}
        kv = known_variants(opv, frame, self)
        if kv is not None and (allowed is None or (info and info.get("variants"))):
            al = set()
            explicit = set()
            for (v, tb, vn) in lab3[:-1]:
                explicit.add(vn)
                if vn in kv:
                    al.add(tb)
            if any(x not in explicit for x in kv):
                al.add(lab3[-1][1])
            allowed = al
        pa = self.policy.filter_edges(self, frame, bb, opv, lab3)
        if pa is not None:
            pa = set(pa)
            allowed = pa if allowed is None else (allowed & pa)
        ev.extra["allowed"] = allowed
        succ = []
        for (v, tb) in labels:
            if allowed is not None and tb not in allowed:
                continue
            if tb not in succ:
                succ.append(tb)
        return succ

    def exec_call(self, frame, bb, st, t):
        body = frame.body
        args = [self.operand(st, frame, a) for a in t["args"]]
        dest = mkplace(t["dest"])
        name = t.get("resolved") or t.get("callee") or "<indirect>"
        rid = t.get("resolved_id") or t.get("callee_id")
        ev = Event(frame.ctx, body.id, bb, -2, "call", name, args, t.get("span", ""),
                   {"rid": rid, "text": t.get("text", ""), "targs": t.get("targs", []),
                    "unresolved": t.get("unresolved", False), "exp": t.get("exp", False)}, dest)
        self.events[(frame.ctx, bb, -2)] = ev
        ev.extra["dargs"] = [self.snapshot(st, a) for a in args]
        ret = None
        handled = False
        callee = self.F.get(rid) if rid else None
        if callee is not None and callee.id.startswith(EXTERNAL_PREFIXES):
            callee = None
        site = (body.id, bb, 0)
        if "indirect" in t:
            fv = self.operand(st, frame, t["indirect"])
            ret = self.invoke(st, frame, fv, args, site)
            handled = True
        elif callee is not None and callee.id not in self.policy.opaque and not t.get("unresolved") \
                and callee.id not in self.policy.summarize and callee.id not in self.sem.LOCAL_PRIMITIVES:
            if callee.kind == "closure":
                # direct call of a closure body through Fn*::call*: args = (closure, (tuple))
                cargs = [args[0]] + self.untuple(st, args[1:]) if args else []
                ret, st2 = self.call_body(callee, frame.ctx, cargs, st, site)
            else:
                ret, st2 = self.call_body(callee, frame.ctx, args, st, site)
            st.clear()
            st.update(st2)
            if ret is None:
                ev.extra["diverges"] = True
                self.policy.on_event(ev)
                return []
            ret = with_tag(ret, "#call", V("Const(%s)" % callee.id))
            handled = True
        elif callee is not None and callee.id not in self.policy.opaque and \
                self.sem.local_primitive(self, st, frame, callee.id, args) is not NotImplemented:
            ret = with_tag(self.sem.local_primitive(self, st, frame, callee.id, args),
                           "#call", V("Const(%s)" % callee.id))
            handled = True
        elif callee is not None and callee.id in self.policy.opaque:
            ret = with_tag(Val(frozenset([("Call(%s)" % short_fn(callee.id), NOOPS)])),
                           "#call", V("Const(%s)" % callee.id))
            handled = True
        elif callee is not None and callee.id in self.policy.summarize:
            d = self.derive(st, args, "kernel:" + callee.id.rsplit("::", 1)[-1])
            ret = with_tag(d, "#call", V("Const(%s)" % callee.id))
            handled = True
        else:
            if re.search(r"::call(_once|_mut)?$", t.get("callee", "")) and "Fn" in t.get("callee", ""):
                cargs = self.untuple(st, args[1:])
                ret = self.invoke(st, frame, args[0], cargs, site)
                handled = True
            else:
                r = self.sem.external(self, st, frame, t, name, args, ev)
                if r is not NotImplemented:
                    ret = r
                    handled = True
        if not handled:
            self.unhandled[name] = self.unhandled.get(name, 0) + 1
            ret = self.generic_external(st, frame, name, args)
        if ret is not None:
            ret = self.policy.on_return(self, name, ret)
        ev.extra["ret"] = ret
        self.policy.on_event(ev)
        if ret is None:
            return []
        self.write_place(st, frame, dest, ret)
        if t["t"] is None:
            return []
        return [t["t"]]

    def untuple(self, st, rest):
        out = []
        for a in rest:
            a = self.deref_full(st, a) if self.refs_of(a) and not a.fields else a
            keys = sorted((k for k in a.fields if k.isdigit()), key=int)
            if keys:
                out.extend(a.fields[k] for k in keys)
            elif not a.is_empty() and const_of(a) != "()":
                out.append(a)
        return out

    def generic_external(self, st, frame, name, args):
        """Unknown external: result derived from all args; &mut pointees receive the same."""
        sn = "ext:" + short_fn(name)
        d = self.derive(st, args, sn)
        # closures passed to unknown HOFs are invoked with derived args
        for a in args:
            for at in list(a.atoms):
                if isinstance(at[0], tuple) and at[0][0] == "closure":
                    r = self.invoke(st, frame, a, [d, d], (frame.body.id, -1, 1))
                    if r is not None:
                        d = vjoin(d, self.derive(st, [r], sn))
        return with_tag(d, "#call", V("Const(%s)" % name))

    def invoke(self, st, frame, fval, args, site):
        """Invoke closure / fn-item value(s) with args; returns joined return Val.  Mutates st."""
        cands = []
        fv = fval
        for _ in range(4):
            cl = [a for a in fv.atoms if isinstance(a[0], tuple) and a[0][0] in ("closure", "fnitem")]
            if cl:
                break
            if self.refs_of(fv):
                fv = self.deref(st, fv)
            else:
                break
        out = None
        any_called = False
        for a in fv.atoms:
            o = a[0]
            if not isinstance(o, tuple):
                continue
            if o[0] == "closure":
                cb = self.F.get(o[1])
                if cb is None:
                    continue
                any_called = True
                # _1 is the closure itself or a reference to it
                envv = fv
                ty1 = cb.locals[1] if len(cb.locals) > 1 else ""
                nsite = (site[0], site[1], site[2] + 10)
                if ty1.startswith("&"):
                    tmp = (frame.ctx, "env:%s:%d" % (o[1], site[1]))
                    st[tmp] = Val(frozenset([a]), fv.fields)
                    envv = Val(frozenset([(("ref", tmp, ()), NOOPS)]))
                else:
                    envv = Val(frozenset([a]), fv.fields)
                nargs = list(args)[:max(0, cb.argc - 1)]
                while len(nargs) < cb.argc - 1:
                    nargs.append(EMPTY)
                r, st2 = self.call_body(cb, frame.ctx, [envv] + nargs, st, nsite)
                st.clear()
                st.update(st2)
                if r is not None:
                    out = r if out is None else vjoin(out, r)
                    key = (frame.ctx, "inv:%s:%s" % (o[1], site[1]), site[2])
                    old = self.events.get(key)
                    rv = r if old is None else vjoin(old.vals[0], r)
                    self.events[key] = Event(frame.ctx, frame.body.id, site[1], site[2], "invoke", o[1], [rv],
                                             cb.span, {"args": nargs})
            elif o[0] == "fnitem":
                fb = self.F.get(o[1])
                any_called = True
                if o[2].rsplit("::", 1)[-1] in ("Ok", "Some") and args:
                    # enum constructor used as a function value
                    last = o[2].rsplit("::", 1)[-1]
                    tagn = "#v:std::result::Result" if last == "Ok" else "#v:std::option::Option"
                    r = with_tag(args[0], tagn, V("Const(%s)" % last))
                elif fb is not None and fb.id not in self.policy.opaque:
                    r, st2 = self.call_body(fb, frame.ctx, list(args), st, site)
                    st.clear()
                    st.update(st2)
                else:
                    fake = {"args": [], "callee": o[2], "resolved": o[2]}
                    r = self.sem.external(self, st, frame, fake, o[2], list(args), None)
                    if r is NotImplemented:
                        r = self.generic_external(st, frame, o[2], list(args))
                if r is not None:
                    out = r if out is None else vjoin(out, r)
        if not any_called:
            return self.derive(st, [fval] + list(args), "ext:indirect")
        return out


# ---------------------------------------------------------------- helpers

_RPO = {}


def body_rpo(body):
    r = _RPO.get(body.id)
    if r is not None:
        return r
    n = len(body.blocks)
    seen = [False] * n
    order = []
    stack = [(0, iter(body.succ[0]))]
    seen[0] = True
    while stack:
        node, it = stack[-1]
        adv = False
        for s in it:
            if not seen[s]:
                seen[s] = True
                stack.append((s, iter(body.succ[s])))
                adv = True
                break
        if not adv:
            order.append(node)
            stack.pop()
    idx = [n + 1] * n
    for i, b in enumerate(reversed(order)):
        idx[b] = i
    _RPO[body.id] = idx
    return idx


def join_store(a, b):
    """Join two stores; returns `a` itself if nothing changed."""
    if a is b:
        return a
    changed = False
    out = None
    for k, vb in b.items():
        va = a.get(k)
        if va is None:
            if out is None:
                out = dict(a)
            out[k] = vb
            changed = True
        elif va is not vb:
            j = vjoin(va, vb)
            if j is not va and j != va:
                if out is None:
                    out = dict(a)
                out[k] = j
                changed = True
    return out if changed else a


def mkpred(name, *args):
    if name == "is_zero" and len(args) == 1:
        a = const_of(args[0])
        if a is not None and re.match(r"^\d+(_[iu]\d+|_usize)?$", a):
            return V("Const(true)" if re.match(r"^0+(_|$)", a) else "Const(false)")     # zero().is_zero()
    if name in ("eq", "ne", "lt", "le", "gt", "ge") and len(args) == 2:
        a, b = const_of(args[0]), const_of(args[1])
        if a is not None and a == b and re.match(r"^-?\d+(_[iu]\d+|_usize)?$|^(true|false)$", a):
            # the same literal on both sides (e.g. zero() > zero()): decided
            return V("Const(true)" if name in ("eq", "le", "ge") else "Const(false)")
    return Val(frozenset([(("pred", name) + tuple(args), NOOPS)]))


def norm_const(text):
    t = text.strip()
    if t.startswith("const "):
        t = t[6:]
    return t


def short(name):
    return name.rsplit("::", 1)[-1]


def short_fn(name):
    n = re.sub(r"<[^<>]*>", "", name)
    n = re.sub(r"<[^<>]*>", "", n)
    parts = [p for p in n.split("::") if p and not p.startswith("{impl")]
    return "::".join(parts[-2:]) if len(parts) >= 2 else n


_ENUM_HINT = {}


def is_enum_name(name, variant):
    # struct aggregates have variant == struct's own name
    return variant != short(name)


def preds_of(v, positive=True, depth=0):
    """Yield (name, args, positive) for predicate atoms in v, unwrapping `not`.
    Plain data atoms (bool fields / bool results) are yielded as ('data', (Val,), positive)."""
    if depth > 6:
        return
    data = []
    for a in v.atoms:
        o = a[0]
        if isinstance(o, tuple) and o[0] == "pred":
            if o[1] == "not":
                for p in preds_of(o[2], not positive, depth + 1):
                    yield p
            elif o[1] == "ne":
                yield ("eq", o[2:], not positive)
            elif o[1] == "is_none":
                yield ("is_some", o[2:], not positive)
            elif o[1] == "is_err":
                yield ("is_ok", o[2:], not positive)
            else:
                yield (o[1], o[2:], positive)
        elif isinstance(o, str):
            data.append(a)
    if data:
        yield ("data", (Val(frozenset(data), {k: x for k, x in v.fields.items() if k.startswith("#")}),), positive)


def switch_info(opv):
    """If the switch operand is a discriminant read, return {'subject': Val, 'adt': str, 'variants': map}."""
    for a in opv.atoms:
        o = a[0]
        if isinstance(o, tuple) and o[0] == "pred" and o[1] == "discr":
            return {"subject": o[2], "adt": o[3], "variants": dict(o[4]) if len(o) > 4 and o[4] else None}
    return None


def known_variants(opv, frame, interp):
    """Set of variant names the discriminant subject can be, if fully known."""
    si = switch_info(opv)
    if si is None or len(opv.atoms) != 1:
        return None
    tv = tagvals(si["subject"], "#v:" + si["adt"])
    return tv
