"""Rule infrastructure: analyses per entry variant, guard matchers, obligations, evidence."""
import json
import os
import re
import sys
import time

sys.path.insert(0, os.path.dirname(os.path.abspath(__file__)))
from facts import Facts, place as mkplace  # noqa: E402
from absint import (Interp, Policy, Val, V, EMPTY, NOOPS, with_tag, vfield, vget, show, preds_of,  # noqa: E402
                    const_of, tagvals, switch_info)
import extract  # noqa: E402

VERIF = extract.VERIF


# ------------------------------------------------------------------ value helpers

def data_atoms(v):
    return [(o, ops) for (o, ops) in v.atoms if isinstance(o, str)]


def origins(I, st, v):
    """Set of origin strings (any ops) in v, flattened through fields."""
    return {o for (o, ops) in I.flat(st, v)}


def flat_atoms(v, depth=0):
    """Flatten without a store (refs ignored)."""
    out = set()
    if depth > 8:
        return out
    for a in v.atoms:
        if isinstance(a[0], str):
            out.add(a)
        elif a[0][0] == "pred":
            for x in a[0][2:]:
                if isinstance(x, Val):
                    for (o, ops) in flat_atoms(x, depth + 1):
                        out.add((o, ops | {"cmp"}))
    for k, f in v.fields.items():
        if k.startswith("#"):
            if k == "#may:key":
                for (o, ops) in flat_atoms(f, depth + 1):
                    out.add((o, ops | {"key"}))
            continue
        out |= flat_atoms(f, depth + 1)
    return out


def exact_origins(v):
    return {o for (o, ops) in flat_atoms(v) if not ops}


def all_origins(v):
    """origins of the value itself (what merely selected it - storage key, query argument - is left out)"""
    return {o for (o, ops) in flat_atoms(v) if "key" not in ops}


def dep_origins(v):
    """everything the value depends on, including what selected it"""
    return {o for (o, ops) in flat_atoms(v)}


def ops_of(v, origin_pat=None):
    out = set()
    for (o, ops) in flat_atoms(v):
        if origin_pat is None or re.search(origin_pat, o):
            out |= ops
    return out


def strip_const(os_):
    return {o for o in os_ if not o.startswith("Const(")}


def call_tag(v):
    t = v.fields.get("#call")
    if t is None:
        return set()
    return {o[6:-1] for (o, ops) in t.atoms if isinstance(o, str) and o.startswith("Const(")}


# ------------------------------------------------------------------ guard matchers (edge removal)

class Cut:
    """Base: decide which switch targets to REMOVE for a predicate occurrence."""
    name = "cut"

    def remove(self, I, frame, pname, pargs, positive, labels3, opv):
        return None


def _bool_targets(labels3, truth):
    """targets taken when the switch operand is `truth`."""
    out = set()
    for (v, tb, vn) in labels3:
        if v == "0":
            if not truth:
                out.add(tb)
        elif v == "otherwise":
            # otherwise = any non-listed value; with a single explicit '0' it is 'true'
            if truth:
                out.add(tb)
        else:
            if truth and v == "1":
                out.add(tb)
    return out


class TryOk(Cut):
    """`f(..)?` / match on f's Result: remove the success edge of a call whose callee matches."""

    def __init__(self, callee_pat, arg_check=None):
        self.pat = callee_pat
        self.name = "try(%s)" % callee_pat

    def remove(self, I, frame, pname, pargs, positive, labels3, opv):
        if pname != "discr":
            return None
        subj = pargs[0]
        if not any(re.search(self.pat, c) for c in call_tag(subj)):
            return None
        explicit = {vn for (v, tb, vn) in labels3 if vn}
        out = {tb for (v, tb, vn) in labels3 if vn in ("Continue", "Ok", "Some")}
        if not out and explicit and explicit <= {"Err", "Break", "None"}:
            out = {tb for (v, tb, vn) in labels3 if v == "otherwise"}      # `if let Err(e) = f(..) { return .. }`: success is the other edge
        return out or None


class PredTrue(Cut):
    """Remove the edge on which a predicate holds.  `test(pname, pargs)` decides whether the
    occurrence is the guard looked for: truthy = the occurrence asserts the guard, -1 = it asserts
    the guard's negation (e.g. `a >= b` written as `!(a < b)` / `if a < b { return Err }`)."""

    def __init__(self, name, test):
        self.name = name
        self.test = test

    def remove(self, I, frame, pname, pargs, positive, labels3, opv):
        r = self.test(pname, pargs)
        if not r:
            return None
        truth = (not positive) if r == -1 else positive
        return _bool_targets(labels3, truth)


class PredFalse(Cut):
    """Remove the edge on which a predicate does NOT hold (assume it true)."""

    def __init__(self, name, test):
        self.name = name
        self.test = test

    def remove(self, I, frame, pname, pargs, positive, labels3, opv):
        r = self.test(pname, pargs)
        if not r:
            return None
        truth = (not positive) if r == -1 else positive
        return _bool_targets(labels3, not truth)


_FLIP = {"<": ">", ">": "<", "<=": ">=", ">=": "<="}
_NEG = {"<": ">=", ">=": "<", ">": "<=", "<=": ">"}
_NAME2OP = {"lt": "<", "le": "<=", "gt": ">", "ge": ">="}


def rel_sign(pname, pargs, a_test, op, b_test):
    """+1 if the comparison occurrence asserts `a op b`, -1 if it asserts the negation, 0 otherwise.
    All spellings are recognised: a<b, b>a, !(a>=b), !(b<=a)."""
    if pname not in _NAME2OP or len(pargs) < 2:
        return 0
    r = _NAME2OP[pname]
    x, y = pargs[0], pargs[1]
    if a_test(x) and b_test(y):
        rr = r
    elif a_test(y) and b_test(x):
        rr = _FLIP[r]
    else:
        return 0
    if rr == op:
        return 1
    if rr == _NEG[op]:
        return -1
    return 0


def om(pat, require_all=True):
    return lambda v: origin_match(v, pat, require_all)


def rel(pat_a, op, pat_b, require_all=True):
    """test for PredTrue/PredFalse: the relation `a op b` between values with origins matching the patterns"""
    return lambda pn, pa: rel_sign(pn, pa, om(pat_a, require_all), op, om(pat_b, require_all))


def rel_atoms(v):
    """comparison predicates found in a switch operand, with polarity: (name, args, positive)"""
    return [(n, a, p) for (n, a, p) in preds_of(v) if n in _NAME2OP]


def find_rel(events, a_test, op, b_test, fn_suffix=None):
    """[(event, args, sign)] over switch events asserting `a op b` in any spelling"""
    out = []
    for e in events:
        if fn_suffix and not e.fn.endswith(fn_suffix):
            continue
        for (n, a, p) in rel_atoms(e.vals[0]):
            s = rel_sign(n, a, a_test, op, b_test)
            if s:
                x, y = (a[0], a[1])
                out.append((e, a, s if p else -s))
    return out


def origin_match(v, pat, require_all=True, exact_only=False):
    at = [(o, ops) for (o, ops) in flat_atoms(v) if not o.startswith("Const(error") and "key" not in ops]
    if exact_only:
        at = [(o, ops) for (o, ops) in at if not ops - {"cmp"}]
    if not at:
        return False
    if require_all:
        return all(re.search(pat, o) for (o, ops) in at)
    return any(re.search(pat, o) for (o, ops) in at)


def eq_test(pat_a, pat_b, require_all=True):
    def test(pname, pargs):
        if pname != "eq" or len(pargs) < 2:
            return False
        a, b = pargs[0], pargs[1]
        if origin_match(a, pat_a, require_all) and origin_match(b, pat_b, require_all):
            return True
        if origin_match(a, pat_b, require_all) and origin_match(b, pat_a, require_all):
            return True
        return False
    return test


def data_test(pat):
    def test(pname, pargs):
        if pname != "data":
            return False
        return origin_match(pargs[0], pat)
    return test


def pred_test(names, pat, idx=0, require_all=True):
    if isinstance(names, str):
        names = (names,)

    def test(pname, pargs):
        if pname not in names or len(pargs) <= idx:
            return False
        return origin_match(pargs[idx], pat, require_all)
    return test


class AssumeReturn:
    """value assumption: a call whose result is a single predicate satisfying test(name, args) is assumed to have returned `truth`
    (unlike a cut at the switch, this also holds where the result is only one operand of a short-circuit `&&` / `||`)"""

    def __init__(self, name, test, truth=True):
        self.name = name
        self.test = test
        self.truth = truth

    def apply(self, ret):
        if len(ret.atoms) != 1 or any(not k.startswith("#") for k in ret.fields):
            return None
        (a, ops), = ret.atoms
        if isinstance(a, tuple) and a[0] == "pred" and self.test(a[1], a[2:]):
            return V("Const(true)" if self.truth else "Const(false)")
        return None


class CutPolicy(Policy):
    def __init__(self, cuts=(), opaque=(), summarize=None, assume=(), nonempty=None):
        self.assume = list(assume)
        self.nonempty = nonempty      # regex over origins of collections assumed non-empty (their first next() is Some)
        self.cuts = list(cuts)
        self.opaque = frozenset(opaque)
        if summarize is not None:
            self.summarize = frozenset(summarize)
        self.hits = {}      # cut name -> list of (fn, bb)

    def on_return(self, I, name, ret):
        for a in self.assume:
            r = a.apply(ret)
            if r is not None:
                self.hits.setdefault(a.name, []).append((name, -1))
                return r
        return ret

    def filter_edges(self, I, frame, bb, opv, labels3):
        if not self.cuts:
            return None
        remove = set()
        for (pname, pargs, positive) in preds_of(opv):
            for c in self.cuts:
                r = c.remove(I, frame, pname, pargs, positive, labels3, opv)
                if r:
                    remove |= r
                    self.hits.setdefault(c.name, []).append((frame.body.id, bb))
            # `if let Some(x) = opt.filter(|x| pred)`: the Some edge is taken iff the predicate held, the None edge otherwise
            if pname == "discr" and pargs and hasattr(pargs[0], "fields") and "#filt" in pargs[0].fields:
                some = [tb for (v, tb, vn) in labels3 if vn == "Some"]
                none = [tb for (v, tb, vn) in labels3 if vn == "None"] or [tb for (v, tb, vn) in labels3 if v == "otherwise"]
                some = some or [tb for (v, tb, vn) in labels3 if v == "otherwise" and tb not in none]
                if len(some) == 1 and len(none) == 1 and some != none:
                    fake = [("0", none[0], None), ("otherwise", some[0], None)]
                    for (pn2, pa2, pos2) in preds_of(pargs[0].fields["#filt"]):
                        for c in self.cuts:
                            if isinstance(c, (PredTrue, PredFalse)):
                                r = c.remove(I, frame, pn2, pa2, pos2, fake, opv)
                                if r:
                                    remove |= r
                                    self.hits.setdefault(c.name, []).append((frame.body.id, bb))
        if not remove:
            # a decision composed of several guards (`opt.is_some_and(|r| a != x && b != *r)`): evaluate it under the assumption
            # the cuts stand for (every guard false); when that determines the decision the other edge is infeasible
            r = self._eval3(opv)
            if r is not None and not any(vn for (v, tb, vn) in labels3):
                keep = _bool_targets(labels3, r)
                if keep and len(keep) < len({tb for (v, tb, vn) in labels3}):
                    self.hits.setdefault("(composite decision)", []).append((frame.body.id, bb))
                    return keep
            return None
        return {tb for (v, tb, vn) in labels3 if tb not in remove}

    def _eval3(self, v, depth=0):
        """three-valued value of a boolean under 'every PredTrue guard is false / every VariantEdge variant is excluded'"""
        if depth > 6 or not hasattr(v, "atoms") or not v.atoms:
            return None
        vals = set()
        for (o, ops) in v.atoms:
            if ops:
                return None
            if isinstance(o, str):
                if o not in ("Const(true)", "Const(false)"):
                    return None
                vals.add(o == "Const(true)")
                continue
            if not (isinstance(o, tuple) and o[0] == "pred"):
                return None
            name, args, neg = o[1], o[2:], False
            if name == "not":
                r = self._eval3(args[0], depth + 1)
                r = None if r is None else (not r)
            elif name == "all" and len(args) == 2:      # Option::is_some_and(closure result, subject)
                s, c = self._is_some(args[1]), self._eval3(args[0], depth + 1)
                r = False if (s is False or c is False) else (True if (s is True and c is True) else None)
            else:
                if name in ("ne", "is_none"):
                    name, neg = {"ne": "eq", "is_none": "is_some"}[name], True
                r = None
                if name == "is_some" and args:
                    r = self._is_some(args[0])
                if r is None:
                    for c in self.cuts:
                        if isinstance(c, PredTrue):
                            t = c.test(name, args)
                            if t:
                                r = (t == -1)
                                break
                if r is not None and neg:
                    r = not r
            if r is None:
                return None
            vals.add(r)
        return vals.pop() if len(vals) == 1 else None

    def _is_some(self, subject):
        for c in self.cuts:
            if c.__class__.__name__ == "VariantEdge" and hasattr(subject, "atoms") and origin_match(subject, c.pat, require_all=False):
                if "None" in c.variants:
                    return True
                if "Some" in c.variants:
                    return False
        return None


# ------------------------------------------------------------------ analyses

OUTFLOW_AGG = re.compile(r"(cosmwasm_std::(BankMsg|WasmMsg|CosmosMsg|AnyMsg|StakingMsg|DistributionMsg|IbcMsg|GovMsg)::)")
OUTFLOW_CALL = re.compile(r"(cosmwasm_std::wasm_execute|cosmwasm_std::wasm_instantiate|cosmwasm_std::SubMsg::<)")


class Analysis:
    def __init__(self, I, ret, store, entry, label):
        self.I = I
        self.ret = ret
        self.store = store
        self.entry = entry
        self.label = label
        self.events = list(I.events.values())

    def writes(self):
        return [e for e in self.events if e.kind == "call" and e.extra.get("write")]

    def reads(self):
        return [e for e in self.events if e.kind == "call" and e.extra.get("sop") in
                ("load", "may_load", "range", "keys", "prefix", "has", "range_raw", "prefix_range")]

    def outflow_aggs(self):
        return [e for e in self.events if e.kind == "agg" and OUTFLOW_AGG.search(e.name)
                and not e.name.startswith("cosmwasm_std::CosmosMsg::")]

    def outflow_calls(self):
        return [e for e in self.events if e.kind == "call" and OUTFLOW_CALL.search(e.name)]

    def effects(self):
        return self.writes() + self.outflow_aggs() + self.outflow_calls()

    def calls(self, pat):
        return [e for e in self.events if e.kind == "call" and re.search(pat, e.name)]

    def calls_id(self, pat):
        return [e for e in self.events if e.kind == "call" and e.extra.get("rid") and re.search(pat, e.extra["rid"])]

    def aggs(self, pat):
        return [e for e in self.events if e.kind == "agg" and re.search(pat, e.name)]

    def switches(self):
        return [e for e in self.events if e.kind == "switch"]

    def d(self, v):
        return self.I.deref_full(self.store, v)


def where(ev):
    chain = [short_id(c) for c in ev.chain()]
    return "%s (%s) via %s" % (ev.span, ev.name.split("<")[0][-60:], " > ".join(chain[-4:]))


def short_id(fid):
    return fid.split("::", 1)[1] if "::" in fid else fid


# message enums nested inside an execute variant and dispatched by a second `match` (types of the external std crate)
NESTED_DISPATCH_ADTS = {"mantra_dex_std::farm_manager::FarmAction", "mantra_dex_std::farm_manager::PositionAction"}


class World:
    """Fact base + entry-point knowledge for the four contracts."""

    def __init__(self, facts_dir):
        self.F = Facts(facts_dir)
        self.facts_dir = facts_dir
        self.stats = {"analyses": 0, "fn_instances": 0, "block_visits": 0, "events": 0}
        self._cache = {}
        # per-tree caches keyed by function id must not outlive the tree (the thorough tier analyses several trees in one process)
        import sys as _sys
        for (mn, attr) in (("absint", "_RPO"), ("absint", "_ENUM_HINT"), ("sem", "_NS_CACHE"), ("rules.C20", "_EFF"),
                           ("rules.common", "_BORROW"), ("rules.swapcore", "_CUT")):
            m_ = _sys.modules.get(mn)
            c_ = getattr(m_, attr, None) if m_ is not None else None
            if isinstance(c_, dict) and not (mn == "rules.common" and getattr(m_, "_BORROW_BUSY", None)):
                c_.clear()

    def entry(self, contract, which):
        return self.F.get("%s::contract::%s" % (contract, which))

    def msg_param(self, body):
        for i in range(1, body.argc + 1):
            if body.varname.get(i, "").lstrip("_") == "msg":
                return i
        return body.argc

    def variant_tree(self, contract, which="execute"):
        """{variant: {field: {subvariant: ...}}} read from the discriminant reads on `msg`."""
        b = self.entry(contract, which)
        mp = self.msg_param(b)
        tree = {}
        adts = {}
        seen = set()

        def scan(b, alias, depth):
            """collect discriminant reads on (parts of) msg in body b; `alias` maps locals to paths below msg.  Dispatch that is
            delegated to a helper (`ExecuteMsg::ManageFarm { action } => manage_farm(deps, env, info, action)`) is followed."""
            if (b.id, tuple(sorted(alias.items()))) in seen or depth > 3:
                return
            seen.add((b.id, tuple(sorted(alias.items()))))
            alias = dict(alias)
            changed = True
            while changed:
                changed = False
                for blk in b.blocks:
                    for s in blk["stmts"]:
                        if s["k"] != "assign" or s["rv"]["k"] != "use":
                            continue
                        op = s["rv"]["op"]
                        if op["k"] not in ("copy", "move"):
                            continue
                        src = mkplace(op["place"])
                        dst = mkplace(s["lhs"])
                        if dst[1] or src[0] not in alias or dst[0] in alias:
                            continue
                        alias[dst[0]] = alias[src[0]] + tuple(x for x in src[1])
                        changed = True
            for blk in b.blocks:
                for s in blk["stmts"]:
                    if s["k"] == "assign" and s["rv"]["k"] == "discr":
                        pl = mkplace(s["rv"]["place"])
                        if pl[0] not in alias:
                            continue
                        full = alias[pl[0]] + tuple(pl[1])
                        if depth > 0 and s["rv"].get("adt", "") not in NESTED_DISPATCH_ADTS:
                            continue      # inside helpers only the nested action enums are dispatch; Options etc. are ordinary data
                        node = tree
                        ok = True
                        path = []
                        for tok in full:
                            if tok[0] == "dc":
                                node = node.setdefault(tok[1], {})
                                path.append(tok[1])
                            elif tok[0] == "f":
                                node = node.setdefault("." + tok[1], {})
                                path.append("." + tok[1])
                            elif tok[0] == "d" and depth > 0:
                                continue
                            else:
                                ok = False
                        if not ok:
                            continue
                        adts[tuple(path)] = s["rv"].get("adt", "")
                        for _, vn in s["rv"].get("variants", []):
                            node.setdefault(vn, {})
                t = blk["term"]
                if t.get("k") == "call":
                    cb = self.F.get(t.get("resolved_id") or t.get("callee_id") or "")
                    if cb is None or cb.crate != b.crate or cb.kind != "fn":
                        continue
                    sub = {}
                    for i, a in enumerate(t.get("args", [])):
                        if a.get("k") in ("copy", "move"):
                            src = mkplace(a["place"])
                            if src[0] in alias:
                                sub[i + 1] = alias[src[0]] + tuple(x for x in src[1])
                    if sub:
                        scan(cb, sub, depth + 1)
        scan(b, {mp: ()}, 0)
        return tree, adts

    def variant_paths(self, contract, which="execute"):
        tree, adts = self.variant_tree(contract, which)
        out = []

        def walk(node, prefix):
            for k, sub in sorted(node.items()):
                if k.startswith("."):
                    continue
                fields = [f for f in sub if f.startswith(".")]
                descended = False
                for f in fields:
                    if any(not x.startswith(".") for x in sub[f]):
                        walk(sub[f], prefix + [k, f])
                        descended = True
                if not descended:
                    out.append(tuple(prefix + [k]))
        walk(tree, [])
        return out, adts

    def seed_msg(self, contract, which, vpath):
        """Val for the msg parameter restricted to a variant path like ('ManageFarm','.action','Create')."""
        _, adts = self.variant_tree(contract, which)

        def build(prefix_origin, path_so_far, rest):
            adt = adts.get(tuple(path_so_far), "")
            variant = rest[0]
            v = V(prefix_origin)
            fields = {"#v:" + adt: V("Const(%s)" % variant)}
            if len(rest) > 2:
                fld = rest[1][1:]
                sub = build("%s.%s.%s" % (prefix_origin, variant, fld), path_so_far + [variant, rest[1]], rest[2:])
                fields[variant] = Val(frozenset([("%s.%s" % (prefix_origin, variant), NOOPS)]), {fld: sub})
            return Val(v.atoms, fields)
        return build("msg", [], list(vpath))

    def run(self, contract, which="execute", vpath=None, policy=None, label=None, extra_args=None):
        b = self.entry(contract, which)
        I = Interp(self.F, policy)
        args = []
        mp = self.msg_param(b)
        for i in range(1, b.argc + 1):
            nm = b.varname.get(i, "p%d" % i).lstrip("_")
            if i == mp and vpath:
                args.append(self.seed_msg(contract, which, vpath))
            else:
                args.append(V(nm))
        if extra_args:
            for k, v in extra_args.items():
                args[k] = v
        import sem as _sem
        _sem._NONEMPTY = getattr(policy, "nonempty", None)
        try:
            ret, st = I.run_entry(b.id, args)
        finally:
            _sem._NONEMPTY = None
        self.stats["analyses"] += 1
        self.stats["fn_instances"] += I.fn_instances
        self.stats["block_visits"] += I.block_visits
        self.stats["events"] += len(I.events)
        return Analysis(I, ret, st, b.id, label or "%s::%s%s" % (contract, which, "/" + "/".join(vpath) if vpath else ""))

    def has_fn(self, fid):
        return self.F.get(fid) is not None

    def find_fns(self, crate, pred):
        return [b for b in self.F.fns(crate) if b.kind == "fn" and pred(b)]

    def run_fn(self, fid, args=None, policy=None, names=None):
        """Analyse a single function with parameters named after its own arguments."""
        b = self.F.get(fid)
        if b is None:
            raise KeyError("function not found in fact base: %s" % fid)
        I = Interp(self.F, policy)
        a = []
        store = {}
        for i in range(1, b.argc + 1):
            nm = b.varname.get(i, "p%d" % i).lstrip("_")
            if names and i - 1 < len(names) and names[i - 1]:
                nm = names[i - 1]
            if args and (i - 1) in args:
                a.append(args[i - 1])
                continue
            ty = b.locals[i]
            if ty.startswith("&"):
                obj = (("param",), "%s" % nm)
                store[obj] = V(nm)
                a.append(Val(frozenset([(("ref", obj, ()), NOOPS)])))
            else:
                a.append(V(nm))
        ret, st = I.run_entry(b.id, a, store)
        self.stats["analyses"] += 1
        self.stats["fn_instances"] += I.fn_instances
        self.stats["block_visits"] += I.block_visits
        self.stats["events"] += len(I.events)
        return Analysis(I, ret, st, b.id, fid)


# ------------------------------------------------------------------ obligations / evidence

class Check:
    def __init__(self, pid, tier="quick"):
        self.pid = pid
        self.tier = tier
        self.obligations = []   # dicts
        self.t0 = time.time()
        self.samples = []
        self.notes = []

    def ok(self, rule, instance, detail=""):
        self.obligations.append({"rule": rule, "instance": instance, "held": True, "detail": detail})

    def fail(self, rule, instance, detail, where_=""):
        self.obligations.append({"rule": rule, "instance": instance, "held": False, "detail": detail,
                                 "where": where_})

    def expect(self, cond, rule, instance, detail_ok="", detail_fail="", where_=""):
        if cond:
            self.ok(rule, instance, detail_ok)
        else:
            self.fail(rule, instance, detail_fail or detail_ok, where_)
        return cond

    def skip(self, rule, instance, why):
        """a best-effort deepening that does not apply to this tree (e.g. a named helper was inlined/renamed)"""
        self.notes.append("skipped %s | %s: %s" % (rule, instance, why))

    def violations(self):
        return [o for o in self.obligations if not o["held"]]


def key_of(o):
    return "%s|%s" % (o["rule"], o["instance"])


def load_known(pid):
    p = os.path.join(VERIF, "known_findings.json")
    if not os.path.exists(p):
        return []
    with open(p) as f:
        d = json.load(f)
    return [k for k in d.get("known", []) if k.get("property") == pid]


def finish(check, world, info, explanation, assumptions, floors=None):
    """Write evidence + report; print VIOLATION / KNOWN-FINDING lines; return exit code."""
    pid = check.pid
    viol = check.violations()
    known = load_known(pid)
    known_keys = {k["key"]: k for k in known}
    new = [v for v in viol if key_of(v) not in known_keys]
    for v in viol:
        if key_of(v) in known_keys:
            print("KNOWN-FINDING: property=%s %s" % (pid, known_keys[key_of(v)].get("what", key_of(v))))
    n = len(check.obligations)
    held = sum(1 for o in check.obligations if o["held"])
    rules = {}
    for o in check.obligations:
        r = rules.setdefault(o["rule"], {"instances": 0, "held": 0})
        r["instances"] += 1
        r["held"] += 1 if o["held"] else 0
    # floors: a rule matching fewer instances than were confirmed by hand is itself a failure
    floor_fail = []
    for r, fl in (floors or {}).items():
        got = rules.get(r, {"instances": 0})["instances"]
        if got < fl:
            floor_fail.append({"rule": r, "instance": "instance-floor", "held": False,
                               "detail": "rule matched %d instances, floor is %d (anchor missing / vacuous)" % (got, fl),
                               "where": ""})
    new += floor_fail
    os.makedirs(os.path.join(VERIF, "evidence"), exist_ok=True)
    os.makedirs(os.path.join(VERIF, "build", "reports"), exist_ok=True)
    samples = [{"rule": o["rule"], "instance": o["instance"], "detail": o["detail"][:400]}
               for o in check.obligations[:: max(1, n // 12)]][:14]
    ev = {
        "property_id": pid,
        "tier": check.tier,
        "seed": int(os.environ.get("VERIF_SEED", "0") or 0),
        "level": "other",
        "coverage": {
            "explanation": explanation,
            "obligations": n,
            "discharged": held,
            "rules": rules,
            "samples": samples,
            "analysed": {
                "fact_tree_hash": info.get("tree_hash"),
                "bodies_per_crate": info.get("counts"),
                "entry_analyses": world.stats["analyses"],
                "function_instances_interpreted": world.stats["fn_instances"],
                "block_visits": world.stats["block_visits"],
                "events_examined": world.stats["events"],
            },
            "exhaustive": True,
            "trusted_base": ["cosmwasm-std / cw-storage-plus / cw-utils / cw-ownable semantics table (engine/sem.py)",
                             "CosmWasm VM rollback on Err", "rustc MIR (nightly, -Zmir-opt-level=0)"],
            "checker_cmd": "./check %s --tier %s" % (pid, check.tier),
            "notes": check.notes,
        },
        "assumptions": assumptions,
        "wall_s": round(time.time() - check.t0, 2),
        "violations": len(new),
    }
    with open(os.path.join(VERIF, "evidence", pid + ".json"), "w") as f:
        json.dump(ev, f, indent=1)
    rp = os.path.join(VERIF, "build", "reports", "%s.report.json" % pid)
    with open(rp, "w") as f:
        json.dump({"property": pid, "violations": new, "known": [v for v in viol if key_of(v) in known_keys],
                   "obligations": check.obligations}, f, indent=1)
    print("[%s] %d obligations, %d held, %d rules, %.1fs" % (pid, n, held, len(rules), time.time() - check.t0))
    if new:
        for v in new[:20]:
            print("  FAIL %s | %s | %s | %s" % (v["rule"], v["instance"], v["detail"][:300], v.get("where", "")))
        print("VIOLATION property=%s replay=%s" % (pid, rp))
        return 1
    return 0
