"""Semantics table for external (trusted-base) callees and a few first-party primitives.

`external(I, st, frame, t, name, args, ev)` returns the abstract return value, or NotImplemented
when the callee is unknown (the interpreter then applies the generic over-approximation:
result derived from all arguments with op `ext:<name>`).
"""
import re
from absint import (Val, V, EMPTY, NOOPS, vjoin, vjoin_all, vfield, vset, vget, with_tag,
                    without_tags, mkpred, const_of, tagvals, short_fn, TRANSPARENT_ENUMS)

OPT = "std::option::Option"
RES = "std::result::Result"
CF = "std::ops::ControlFlow"


def parse_name(name):
    """-> (self_ty, trait, method) best effort from a def_path_str."""
    n = name
    method = n.rsplit("::", 1)[-1]
    self_ty = ""
    trait = ""
    m = re.match(r"^<(.*) as (.*)>::(\w+)$", n)
    if m:
        self_ty, trait, method = m.group(1), m.group(2), m.group(3)
    else:
        m2 = re.search(r"<impl (.*?) for (.*)>::(\w+)$", n)
        if m2:
            trait, self_ty, method = m2.group(1), m2.group(2), m2.group(3)
        else:
            m3 = re.search(r"<impl ([\w:]+)>::(\w+)$", n)
            if m3:
                self_ty, method = m3.group(1), m3.group(2)
            else:
                n2 = n
                while True:      # strip generic argument lists, innermost first (they may nest and contain commas)
                    n3 = re.sub(r"(::)?<[^<>]*>", "", n2)
                    if n3 == n2:
                        break
                    n2 = n3
                parts = n2.split("::")
                if len(parts) >= 2:
                    self_ty = parts[-2]
                    if len(parts) >= 3 and parts[-3] in ("ops", "cmp") and parts[-2][:1].isupper():
                        trait = "::".join(parts[-3:-1])
    return self_ty, trait, method


def tyshort(t):
    t = re.sub(r"<.*", "", t)
    return t.rsplit("::", 1)[-1].strip("& ")


ADD = {"checked_add", "add", "saturating_add", "plus_seconds", "plus_nanos", "plus_days", "add_assign", "sum",
       "strict_add"}
SUB = {"checked_sub", "sub", "minus_seconds", "abs_diff", "sub_assign", "strict_sub"}
SAT_SUB = {"saturating_sub"}
MUL = {"checked_mul", "mul", "pow", "checked_pow", "saturating_mul", "saturating_pow", "mul_assign", "strict_mul"}
DIVF = {"checked_div", "div", "multiply_ratio", "checked_multiply_ratio", "checked_mul_floor",
        "checked_div_floor", "mul_floor", "div_floor", "from_ratio", "checked_from_ratio", "to_uint_floor",
        "from_atomics", "inv", "floor", "checked_div_euclid", "div_euclid", "div_assign", "percent",
        "permille", "bps", "sqrt", "isqrt", "integer_sqrt"}
REM = {"checked_rem", "rem", "rem_assign", "checked_rem_euclid", "rem_euclid"}
DIVC = {"to_uint_ceil", "checked_mul_ceil", "mul_ceil", "checked_div_ceil", "div_ceil", "ceil",
        "next_multiple_of", "checked_next_multiple_of"}
WRAP = {"wrapping_add", "wrapping_sub", "wrapping_mul", "wrapping_div", "wrapping_pow", "overflowing_add",
        "overflowing_sub", "overflowing_mul", "unchecked_add", "unchecked_sub", "unchecked_mul"}
NUMTY = {"Uint64", "Uint128", "Uint256", "Uint512", "Decimal", "Decimal256", "Int128", "Int256", "Int64",
         "SignedDecimal", "SignedDecimal256", "Timestamp", "u8", "u16", "u32", "u64", "u128", "usize",
         "i32", "i64", "i128", "U256", "U512"}
DECTY = {"Decimal", "Decimal256", "SignedDecimal", "SignedDecimal256"}

COPY_OUT = {"clone", "to_string", "to_owned", "to_vec", "cloned", "copied", "into", "from", "try_into",
            "try_from", "into_string", "unwrap", "expect", "u128", "u64", "seconds", "nanos", "from_seconds",
            "from_nanos", "atomics", "must_use", "into_vec", "collect", "transpose", "as_bytes", "unchecked",
            "from_uint128", "from_u128", "from_uint256", "to_be_bytes", "into_boxed_slice", "into_owned",
            "to_lowercase", "to_uppercase", "unwrap_unchecked", "into_inner", "to_decimal_256x", "from_str",
            "parse", "to_json_binary", "to_json_vec", "to_json_string", "from_json", "into_bytes", "as_u128",
            "low_u128", "as_u64", "abs", "unsigned_abs", "to_uint128x", "box_assume_init_into_vec_unsafe",
            "assume_init", "write", "into_keys", "into_values", "addr_canonicalize", "addr_humanize",
            "unwrap_err", "expect_err", "fuse", "peekable", "decimal_places", "new_uninit_slice"}
SAME_REF = {"deref", "deref_mut", "as_ref", "as_mut", "borrow", "borrow_mut", "as_slice", "as_mut_slice",
            "as_str", "as_mut_str", "branch_deps", "by_ref", "rev", "skip", "take", "step_by", "chars",
            "bytes", "as_deref", "as_deref_mut", "as_ptr", "as_mut_ptr", "trim", "trim_start", "trim_end",
            "keys", "values", "values_mut", "as_path", "as_bytes_mut"}
ELEMENT = {"index", "index_mut", "get", "get_mut", "first", "last", "first_mut", "last_mut", "nth",
           "get_unchecked", "get_unchecked_mut", "peek", "pop", "swap_remove", "remove_entry", "last_mut"}
PERMUTE = {"sort", "sort_by", "sort_by_key", "sort_unstable", "sort_unstable_by", "sort_unstable_by_key",
           "sort_by_cached_key", "reverse", "swap", "rotate_left", "rotate_right", "retain", "retain_mut",
           "dedup", "dedup_by", "dedup_by_key", "remove", "swap_remove", "insert", "truncate", "drain",
           "clear", "pop", "split_off", "resize", "resize_with", "shuffle", "select_nth_unstable"}
PRED0 = {"is_zero", "is_empty", "is_some", "is_none", "is_ok", "is_err", "is_ascii_alphanumeric",
         "is_ascii_digit", "is_alphanumeric", "is_ascii", "is_expired_x"}
PRED2 = {"eq", "ne", "lt", "le", "gt", "ge", "contains", "starts_with", "ends_with", "contains_key",
         "cmp", "partial_cmp", "eq_ignore_ascii_case"}
CONSTRUCT0 = {"zero": "0", "one": "1", "MAX": "MAX", "MIN": "MIN"}
EMPTY_CTOR = {"new", "with_capacity", "default", "new_in"}
DIVERGE = {"panic_fmt", "panic", "unwrap_failed", "expect_failed", "panic_display", "unreachable_display",
           "panic_nounwind", "panic_bounds_check", "begin_panic", "abort", "exit",
           "panic_cold_explicit", "slice_index_fail"}


# storage items are identified by their on-chain namespace (which cannot change without a migration), under the name the
# declaring constant has on the pinned tree; a renamed constant keeps its canonical name, an unknown namespace falls back to
# the constant's own name
NS2NAME = {"config": "CONFIG", "position_id_counter": "POSITION_ID_COUNTER", "positions": "POSITIONS",
           "last_claimed_epoch": "LAST_CLAIMED_EPOCH", "lp_weight_history": "LP_WEIGHT_HISTORY", "farm_counter": "FARM_COUNTER",
           "farms": "FARMS", "single_side_liquidity_provision_buffer": "SINGLE_SIDE_LIQUIDITY_PROVISION_BUFFER", "pools": "POOLS",
           "pool_count": "POOL_COUNTER"}
_NS_CACHE = {}


def namespace_of_const(F, full):
    k = (id(F), full)
    if k in _NS_CACHE:
        return _NS_CACHE[k]
    ns = None
    b = F.get(full)
    if b is not None:
        for blk in b.blocks:
            t = blk["term"]
            if t.get("k") == "call" and re.search(r"cw_storage_plus::\w+::(<.*>::)?new$", t.get("callee", "")) and \
                    re.search(r"::(Item|Map|IndexedMap|SnapshotMap|SnapshotItem|IndexedSnapshotMap)\b", t.get("callee", "")):
                lits = [a["text"].strip().strip('"') for a in t["args"] if a.get("k") == "const" and a.get("text", "").strip().startswith('"')]
                if lits:
                    ns = lits[0]
                    break
    _NS_CACHE[k] = ns
    return ns


def canonical_item(F, full):
    ns = namespace_of_const(F, full)
    outer = F.get(full.rsplit("::", 1)[0]) if "::" in full else None
    local_to_fn = outer is not None and outer.kind == "fn"      # e.g. the old-layout item declared inside a migration function
    if ns is not None and ns in NS2NAME and not local_to_fn:
        return NS2NAME[ns]
    return full.rsplit("::", 1)[-1]


def item_of(I, st, v):
    """Storage item name from the receiver value (Ref to a local holding Const(<def>))."""
    v = I.deref_full(st, v)
    names = set()
    for (o, ops) in v.atoms:
        if isinstance(o, str):
            m = re.match(r"Const\(([\w:{}#]+)\)", o)
            if m:
                names.add(m.group(1))
    if len(names) == 1:
        full = names.pop()
        return canonical_item(I.F, full), full
    if names:
        return "|".join(sorted(canonical_item(I.F, n) for n in names)), "|".join(sorted(names))
    return "?", "?"


def store_val(item, extra=None):
    v = V("Store(%s)" % item)
    if extra is not None and not extra.is_empty():
        v = Val(v.atoms | extra.atoms)
    return v


def elem_of(I, st, itv):
    """Element value of an iterator/collection value (by value; elements may themselves be refs)."""
    v = itv
    for _ in range(4):
        if "[*]" in v.fields:
            return v.fields["[*]"]
        refs = I.refs_of(v)
        if refs:
            pv = I.deref(st, v)
            if "[*]" in pv.fields and not I.refs_of(pv):
                # reference to an iterator/collection value held in a local
                # iterator objects hold element values directly
                if pv.fields.get("#iter") is not None:
                    return pv.fields["[*]"]
                # a collection reached by reference: elements by reference
                at = set()
                for a in refs:
                    _, objid, path = a[0]
                    at.add((("ref", objid, tuple(path) + ("[*]",)), NOOPS))
                return Val(frozenset(at))
            if I.refs_of(pv) and not pv.fields:
                v = pv
                continue
            if pv.fields.get("#iter") is not None:
                return vfield(pv, "[*]")
            at = set()
            for a in refs:
                _, objid, path = a[0]
                at.add((("ref", objid, tuple(path) + ("[*]",)), NOOPS))
            return Val(frozenset(at))
        if "[*]" not in v.fields and (any(k.startswith("#v:") and "Option" in k for k in v.fields) or any(not k.startswith("#") for k in v.fields)):
            # not a collection: an Option used as an IntoIterator (add_messages(Some(msg)), extend(opt), chain(opt)) yields its payload
            return without_tags(v)
        return vfield(v, "[*]")
    return vfield(v, "[*]")


_NONEMPTY = None      # assumption of the running policy: collections whose origin matches this regex are not empty


def mk_iter(elem, src=None):
    f = {"[*]": elem, "#iter": V("Const(iter)")}
    if src is not None and "#nonempty" in src.fields:
        f["#first"] = V("Const(first)")      # the first next() of this iterator cannot be None
    if _NONEMPTY is not None and src is not None:
        os_ = {a[0] for a in src.atoms if isinstance(a[0], str)} | {a[0] for a in elem.atoms if isinstance(a[0], str)}
        if any(re.search(_NONEMPTY, o) for o in os_):
            f["#first"] = V("Const(first)")
    if src is not None and "#uniq" in src.fields:
        f["#uniq"] = src.fields["#uniq"]     # elements of a de-duplicated collection stay distinct
    return Val(frozenset(), f)


def tag_map(v, src_adt, dst_adt, mapping):
    tv = tagvals(v, "#v:" + src_adt)
    out = Val(v.atoms, {k: x for k, x in v.fields.items() if k != "#v:" + src_adt})
    if tv is not None and all(x in mapping for x in tv):
        out = with_tag(out, "#v:" + dst_adt, Val(frozenset(("Const(%s)" % mapping[x], NOOPS) for x in tv)))
    return out


def ret_tag(v, name):
    return with_tag(v, "#call", V("Const(%s)" % name))


def add_may(v, tag, what):
    old = v.fields.get("#may:" + tag, EMPTY)
    return with_tag(v, "#may:" + tag, vjoin(old, V("Const(%s)" % what)))


def external(I, st, frame, t, name, args, ev):
    self_ty, trait, method = parse_name(name)
    tys = tyshort(self_ty)
    a0 = args[0] if args else EMPTY
    D = lambda v: I.deref_full(st, v)   # noqa: E731

    # ---------------------------------------------------------------- bool::then / then_some, slice windows / chunks
    if re.search(r"bool::<impl bool>::then$|<impl bool>::then$", name) and len(args) == 2:
        r = I.invoke(st, frame, args[1], [], (frame.body.id, ev.bb if ev else -3, 6))
        return without_tags(r) if r is not None else EMPTY       # Some(f()) or None: the payload is transparent
    if re.search(r"<impl bool>::then_some$", name) and len(args) == 2:
        return without_tags(D(args[1]))
    if re.search(r"slice::<impl \[T\]>::(windows|chunks|chunks_exact|rchunks)$", name) and args:
        return mk_iter(Val(frozenset(), {"[*]": elem_of(I, st, a0)}))

    # ---------------------------------------------------------------- diverging
    if method in DIVERGE and ("panicking" in name or "process" in name or "slice" in name or "option" in name
                              or "result" in name):
        return None

    # ---------------------------------------------------------------- ? machinery
    if method == "branch" and "Try" in name:
        if "Option" in name:
            return tag_map(a0, OPT, CF, {"Some": "Continue", "None": "Break"})
        return tag_map(a0, RES, CF, {"Ok": "Continue", "Err": "Break"})
    if method == "from_residual":
        if "Option" in name.split("FromResidual")[0]:
            return with_tag(EMPTY, "#v:" + OPT, V("Const(None)"))
        return with_tag(EMPTY, "#v:" + RES, V("Const(Err)"))
    if method == "from_output":
        return a0

    # ---------------------------------------------------------------- storage (cw-storage-plus)
    if "cw_storage_plus" in name:
        return storage(I, st, frame, t, name, tys, method, args, ev)

    # ---------------------------------------------------------------- cosmwasm / cw helpers
    r = cosmwasm(I, st, frame, t, name, self_ty, tys, trait, method, args, ev)
    if r is not NotImplemented:
        return r

    # ---------------------------------------------------------------- Option / Result combinators
    if tys in ("Option", "Result") or "option::Option" in name or "result::Result" in name:
        r = optres(I, st, frame, t, name, tys, method, args, ev)
        if r is not NotImplemented:
            return r

    # ---------------------------------------------------------------- iterators
    r = iterators(I, st, frame, t, name, self_ty, tys, trait, method, args, ev)
    if r is not NotImplemented:
        return r

    # ---------------------------------------------------------------- predicates
    if method in PRED2 and len(args) >= 2 and ("cmp" in name or "PartialEq" in name or "PartialOrd" in name
                                                or "Ord" in trait or method in ("contains", "starts_with",
                                                                                "ends_with", "contains_key",
                                                                                "eq_ignore_ascii_case")):
        return mkpred(method, D(args[0]), D(args[1]))
    if method in PRED0 and len(args) == 1:
        return mkpred(method, D(a0))
    if method in ("min", "max") and len(args) == 2:
        return I.derive(st, [D(args[0]), D(args[1])], method)
    if method in ("clamp",) and len(args) == 3:
        return I.derive(st, [D(x) for x in args], "min")

    # ---------------------------------------------------------------- arithmetic on numeric types
    if tys in NUMTY or trait.split("<")[0].rsplit("::", 1)[-1] in (
            "Add", "Sub", "Mul", "Div", "Rem", "AddAssign", "SubAssign", "MulAssign", "DivAssign", "Isqrt",
            "Fraction", "Sum") or tyshort(trait) in ("Isqrt", "Fraction"):
        r = arith(I, st, tys, method, args)
        if r is not NotImplemented:
            return r

    # ---------------------------------------------------------------- conversions / copies
    if method == "clone_from" and len(args) == 2:
        I.write_through(st, args[0], D(args[1]), strong=True)
        return V("Const(())")
    if method in COPY_OUT:
        if not args:
            return V("Const(%s)" % short_fn(name))
        return without_call(D(a0))
    if method in SAME_REF:
        return a0
    if method in ("as_ref", "as_mut") and tys == "DepsMut":
        return a0
    if tys in ("DepsMut", "Deps") and method in ("branch", "as_ref", "into_empty"):
        return D(a0)
    if method in ("unwrap_or_default",):
        return vjoin(without_tags(D(a0)), V("Const(default)"))

    # ---------------------------------------------------------------- collections
    r = collections(I, st, frame, t, name, self_ty, tys, trait, method, args, ev)
    if r is not NotImplemented:
        return r

    # ---------------------------------------------------------------- formatting
    if "fmt::" in name or method in ("format", "join", "concat", "repeat", "to_hex", "encode"):
        return I.derive(st, args, "fmt")
    if method in CONSTRUCT0 and not args:
        return V("Const(%s)" % CONSTRUCT0[method])
    if method in EMPTY_CTOR and not args:
        return V("Const(empty)")
    if method == "len" or method == "count":
        return I.derive(st, [D(a0)], "len")
    if method in ("drop", "forget"):
        return V("Const(())")
    if method in ("hash", "hash_one"):
        return I.derive(st, args, "hash")
    return NotImplemented


def without_call(v):
    if "#call" in v.fields:
        return Val(v.atoms, {k: x for k, x in v.fields.items() if k != "#call"})
    return v


def arith(I, st, tys, method, args):
    D = lambda v: I.deref_full(st, v)   # noqa: E731
    dargs = [D(a) for a in args]
    ops = None
    if method in WRAP:
        ops = ["wrap", "add" if "add" in method else "sub" if "sub" in method else "mul"]
    elif method in ADD:
        ops = ["add"]
    elif method in SAT_SUB:
        ops = ["sub", "sat"]
    elif method in SUB:
        ops = ["sub"]
    elif method in REM:
        ops = ["rem"]
    elif method in DIVC:
        ops = ["div_ceil"]
    elif method in DIVF:
        ops = ["div_floor"]
        if method in ("sqrt", "isqrt", "integer_sqrt"):
            ops = ["sqrt_floor"]
        if method in ("percent", "permille", "bps") and all(const_of(a) is not None for a in dargs):
            return V("Const(%s:%s)" % (method, ",".join(const_of(a) for a in dargs)))
    elif method in MUL:
        ops = ["mul"]
        if tys in DECTY and method != "pow" and method != "checked_pow":
            ops = ["mul", "div_floor"]
        if method.startswith("saturating"):
            ops.append("sat")
    if ops is None:
        if method in ("min", "max") and len(args) == 2:
            return I.derive(st, dargs, method)
        if method in ("new", "raw") and len(args) == 1:
            return without_call(dargs[0])
        if method in ("zero", "one") and not args:
            return V("Const(%s)" % CONSTRUCT0[method])
        return NotImplemented
    if method.endswith("_assign") and len(args) == 2:
        cur = dargs[0]
        nv = derive_roles(I, st, method, dargs, ops)
        I.write_through(st, args[0], nv, strong=True)
        return V("Const(())")
    return derive_roles(I, st, method, dargs, ops)


def derive_roles(I, st, method, dargs, ops):
    """like derive_ops, but operands of subtractions / divisions also get a directed class
    (sub:l minuend, sub:r subtrahend, div:l numerator side, div:r denominator)."""
    from absint import vjoin
    roles = None
    if "sub" in ops and len(dargs) == 2:
        roles = [["sub:l"], ["sub:r"]]
    elif method in ("from_ratio", "checked_from_ratio") and len(dargs) == 2:
        roles = [["div:l"], ["div:r"]]
    elif method in ("checked_div", "div", "checked_div_euclid", "div_euclid", "div_floor", "div_assign", "checked_rem", "rem") and len(dargs) == 2:
        roles = [["div:l"], ["div:r"]]
    elif method in ("multiply_ratio", "checked_multiply_ratio") and len(dargs) == 3:
        roles = [["div:l"], ["div:l"], ["div:r"]]
    elif method in ("inv",) and len(dargs) == 1:
        roles = [["div:r"]]
    elif method in ("checked_mul_floor", "mul_floor", "checked_mul_ceil", "mul_ceil") and len(dargs) == 2:
        fr = dargs[1]
        out = derive_ops(I, st, [dargs[0], vfield(fr, "0")], ops + ["div:l"])
        return vjoin(out, derive_ops(I, st, [vfield(fr, "1")], ops + ["div:r"]))
    elif method in ("checked_div_floor", "checked_div_ceil", "div_ceil") and len(dargs) == 2 and ("0" in dargs[1].fields or "1" in dargs[1].fields):
        fr = dargs[1]
        out = derive_ops(I, st, [dargs[0], vfield(fr, "1")], ops + ["div:l"])
        return vjoin(out, derive_ops(I, st, [vfield(fr, "0")], ops + ["div:r"]))
    if roles is None:
        return derive_ops(I, st, dargs, ops)
    out = EMPTY
    for d, r in zip(dargs, roles):
        out = vjoin(out, derive_ops(I, st, [d], ops + r))
    return out


def derive_ops(I, st, vals, ops):
    from absint import norm_atoms, STAR
    at = set()
    for v in vals:
        for (o, oo) in I.flat(st, v):
            if oo and o.startswith("Const("):
                at.add((o, STAR))
                continue
            at.add((o, oo | frozenset(ops)))
    return Val(norm_atoms(frozenset(at)))


def optres(I, st, frame, t, name, tys, method, args, ev):
    D = lambda v: I.deref_full(st, v)   # noqa: E731
    a0 = args[0] if args else EMPTY
    site = (frame.body.id, -2, 2)
    if method in ("ok_or", "ok_or_else"):
        if method == "ok_or_else" and len(args) > 1:
            I.invoke(st, frame, args[1], [], site)
        return tag_map(a0, OPT, RES, {"Some": "Ok", "None": "Err"})
    if method == "ok":
        return tag_map(a0, RES, OPT, {"Ok": "Some", "Err": "None"})
    if method == "err":
        return tag_map(a0, RES, OPT, {"Ok": "None", "Err": "Some"})
    if method == "map_err":
        if len(args) > 1:
            I.invoke(st, frame, args[1], [V("Const(error)")], site)
        return a0
    if method in ("map", "and_then", "then", "is_some_and", "is_ok_and", "inspect"):
        r = I.invoke(st, frame, args[1], [without_tags(a0)], site) if len(args) > 1 else a0
        if r is None:
            r = EMPTY
        if method in ("is_some_and", "is_ok_and"):
            return mkpred("all", r, D(a0))
        if method == "inspect":
            return a0
        if method == "map":
            adt = OPT if "Option" in name else RES
            tv = a0.fields.get("#v:" + adt)
            r = without_tags(r) if tv is None else with_tag(without_tags(r), "#v:" + adt, tv)
        return r
    if method in ("unwrap_or", "or"):
        adt = OPT if "Option" in name else RES
        tv = tagvals(a0, "#v:" + adt)
        if method == "unwrap_or" and tv is not None and tv <= {"Some", "Ok"}:
            return without_tags(a0)
        if method == "unwrap_or" and tv is not None and tv <= {"None", "Err"}:
            return without_tags(args[1])
        return vjoin(without_tags(a0), without_tags(args[1]))
    if method in ("unwrap_or_else", "or_else", "map_or_else"):
        r = I.invoke(st, frame, args[1], [V("Const(error)")], site)
        out = without_tags(a0)
        if method == "map_or_else" and len(args) > 2:
            r2 = I.invoke(st, frame, args[2], [without_tags(a0)], (site[0], site[1], 3))
            out = r2 if r2 is not None else EMPTY
        if r is not None:
            out = vjoin(out, without_tags(r))
        return out
    if method == "map_or" and len(args) > 2:
        r2 = I.invoke(st, frame, args[2], [without_tags(a0)], site)
        return vjoin(without_tags(args[1]), r2 if r2 is not None else EMPTY)
    if method in ("unwrap_or_default",):
        return vjoin(without_tags(a0), V("Const(default)"))
    if method in ("unwrap", "expect", "unwrap_unchecked"):
        return without_tags_keep_call(a0)
    if method in ("is_some", "is_none", "is_ok", "is_err"):
        return mkpred(method, D(a0))
    if method in ("as_ref", "as_mut", "as_deref", "as_deref_mut"):
        return a0
    if method in ("cloned", "copied", "clone"):
        return D(a0)
    if method == "transpose":
        return without_tags(a0)
    if method in ("take", "replace") and I.refs_of(a0):
        return D(a0)
    if method in ("filter", "is_none_or"):
        if method == "filter" and tagvals(a0, "#v:" + OPT) == {"None"}:
            return a0      # None.filter(..) is None
        r = I.invoke(st, frame, args[1], [a0], site) if len(args) > 1 else None
        if method == "filter" and r is not None and "Option" in name:
            return with_tag(without_tags(a0), "#filt", r)      # Some iff it was Some and the predicate held
        return without_tags(a0)
    if method in ("zip",) and len(args) == 2:
        return Val(frozenset(), {"0": without_tags(a0), "1": without_tags(args[1])})
    if method in ("eq", "ne"):
        return mkpred(method, D(a0), D(args[1]))
    if method in ("iter", "into_iter"):
        return mk_iter(a0 if method == "iter" else without_tags(D(a0)))
    if method == "unwrap_err":
        return V("Const(error)")
    if method in ("flatten",):
        return without_tags(a0)
    return NotImplemented


def without_tags_keep_call(v):
    keep = {k: x for k, x in v.fields.items() if not k.startswith("#v:")}
    return Val(v.atoms, keep)


def iterators(I, st, frame, t, name, self_ty, tys, trait, method, args, ev):
    D = lambda v: I.deref_full(st, v)   # noqa: E731
    a0 = args[0] if args else EMPTY
    site = (frame.body.id, ev.bb if ev else -3, 4)
    is_iter_ctx = ("Iterator" in name or "iter" in name.lower() or "IntoIter" in name)
    if method in ("iter", "iter_mut") and len(args) == 1:
        return mk_iter(elem_of(I, st, a0), D(a0))
    if method in ("splitn", "split", "rsplit", "rsplitn", "split_terminator", "lines", "split_whitespace", "char_indices") \
            and "str" in name:
        return mk_iter(I.derive(st, [D(a0)], "split"))
    if method == "into_iter" and len(args) == 1:
        if "HashMap" in name or "BTreeMap" in name:
            m = D(a0)
            el = Val(frozenset(), {"0": vfield(m, "[k]"), "1": vfield(m, "[*]")})
            return mk_iter(el)
        if a0.fields.get("#iter") is not None:
            return a0
        if I.refs_of(a0):
            return mk_iter(elem_of(I, st, a0), D(a0))
        if "[*]" not in a0.fields and ("start" in a0.fields or "end" in a0.fields):
            return mk_iter(I.derive(st, [a0], "range"))
        return mk_iter(vfield(a0, "[*]"), a0)
    if not is_iter_ctx:
        return NotImplemented
    if method == "next" or method == "next_back" or method == "last" or method == "nth":
        itv = D(a0) if I.refs_of(a0) and "[*]" not in a0.fields else a0
        if "[*]" not in itv.fields:
            # range-like or unknown iterator object
            return I.derive(st, [itv], "range")
        if "#first" in itv.fields and method == "next" and I.refs_of(a0):
            nit = Val(itv.atoms, {k: x for k, x in itv.fields.items() if k != "#first"})
            I.write_through(st, a0, nit, strong=True)
            return with_tag(itv.fields["[*]"], "#v:" + OPT, V("Const(Some)"))
        return itv.fields["[*]"]
    itv = a0
    if I.refs_of(a0) and "[*]" not in a0.fields:
        itv = D(a0)
    if "[*]" not in itv.fields and not itv.is_empty() and not I.refs_of(itv) and method in (
            "map", "filter", "filter_map", "flat_map", "for_each", "try_for_each", "fold", "try_fold", "any", "all", "find", "position", "rev", "take", "skip",
            "step_by", "enumerate", "zip", "chain", "collect", "sum", "count", "last", "max", "min", "inspect", "scan", "map_while", "take_while", "skip_while"):
        itv = mk_iter(I.derive(st, [itv], "range"))      # a range used through iterator adaptors: elements derive from its bounds
    if method in ("rev", "skip", "take", "step_by", "fuse", "peekable", "by_ref", "skip_while", "take_while",
                  "chain", "cycle", "filter", "inspect"):
        if method in ("skip_while", "take_while", "filter", "inspect") and len(args) > 1:
            el = vfield(itv, "[*]")
            I.invoke(st, frame, args[1], [el], site)
        if method == "chain" and len(args) > 1:
            return mk_iter(vjoin(vfield(itv, "[*]"), elem_of(I, st, args[1])))
        return itv if "[*]" in itv.fields else mk_iter(vfield(itv, "[*]"))
    def keep_first(it):      # element-preserving adaptors keep "the first next() is Some"
        if "#first" in itv.fields and "#first" not in it.fields:
            return Val(it.atoms, dict(it.fields, **{"#first": itv.fields["#first"]}))
        return it
    if method in ("cloned", "copied"):
        return keep_first(mk_iter(D(vfield(itv, "[*]"))))
    if method == "flatten":
        return mk_iter(without_tags(elem_of(I, st, vfield(itv, "[*]"))))
    if method == "enumerate":
        return keep_first(mk_iter(Val(frozenset(), {"0": V("Const(index)"), "1": vfield(itv, "[*]")})))
    if method == "zip" and len(args) == 2:
        return mk_iter(Val(frozenset(), {"0": vfield(itv, "[*]"), "1": elem_of(I, st, args[1])}))
    if method in ("map", "filter_map", "flat_map", "map_while", "scan"):
        el = vfield(itv, "[*]")
        r = I.invoke(st, frame, args[-1], [el], site)
        if r is None:
            r = EMPTY
        if method == "flat_map":
            r = elem_of(I, st, r)
        return keep_first(mk_iter(without_tags(r))) if method == "map" else mk_iter(without_tags(r))
    if method in ("any", "all"):
        el = vfield(itv, "[*]")
        r = I.invoke(st, frame, args[1], [el], site)
        return mkpred(method, r if r is not None else EMPTY)
    if method in ("find", "find_map", "rfind", "max_by", "min_by", "max_by_key", "min_by_key"):
        el = vfield(itv, "[*]")
        r = I.invoke(st, frame, args[1], [el, el], site)
        if method == "find_map":
            return without_tags(r) if r is not None else EMPTY
        if method.startswith(("max", "min")):
            return I.derive(st, [D(el)], method[:3])
        return el
    if method in ("position", "rposition"):
        el = vfield(itv, "[*]")
        r = I.invoke(st, frame, args[1], [el], site)
        return Val(frozenset([("Const(index)", frozenset(["pos"]))]),
                   {"#may:pos": r if r is not None else EMPTY})
    if method in ("fold", "try_fold", "reduce", "try_reduce"):
        el = vfield(itv, "[*]")
        if method in ("fold", "try_fold"):
            acc = without_tags(args[1])
            f = args[2]
        else:
            acc = el
            f = args[1]
        for _ in range(2):
            r = I.invoke(st, frame, f, [acc, el], site)
            if r is not None:
                acc = vjoin(acc, without_tags(r))
        return acc
    if method in ("for_each", "try_for_each"):
        el = vfield(itv, "[*]")
        r = I.invoke(st, frame, args[1], [el], site)
        return r if (r is not None and method == "try_for_each") else V("Const(())")
    if method == "partition":
        el = vfield(itv, "[*]")
        r = I.invoke(st, frame, args[1], [el], site)
        coll = Val(frozenset(), {"[*]": el})
        p = r if r is not None else EMPTY
        return Val(frozenset(), {"0": with_tag(with_tag(coll, "#part", V("Const(true)")), "#may:pred", p),
                                 "1": with_tag(with_tag(coll, "#part", V("Const(false)")), "#may:pred", p)})
    if method in ("collect", "try_collect"):
        el = vfield(itv, "[*]")
        dst = ev.extra.get("targs", []) if ev else []
        dty = dst[-1] if dst else ""
        if "HashMap" in dty or "BTreeMap" in dty:
            return Val(frozenset(), {"[k]": vfield(el, "0"), "[*]": vfield(el, "1"), "#uniq": V("Const(map keys)")})
        out = {"[*]": without_tags(el)}
        if "HashSet" in dty or "BTreeSet" in dty:
            out["#uniq"] = V("Const(set)")
        elif "#uniq" in itv.fields:
            out["#uniq"] = itv.fields["#uniq"]
        return Val(frozenset(), out)
    if method in ("sum", "product"):
        return I.derive(st, [D(vfield(itv, "[*]"))], "add" if method == "sum" else "mul")
    if method in ("count",):
        return I.derive(st, [D(vfield(itv, "[*]"))], "len")
    if method in ("max", "min") and len(args) == 1:
        return I.derive(st, [D(vfield(itv, "[*]"))], method)
    if method == "unzip":
        el = vfield(itv, "[*]")
        return Val(frozenset(), {"0": Val(frozenset(), {"[*]": vfield(el, "0")}),
                                 "1": Val(frozenset(), {"[*]": vfield(el, "1")})})
    return NotImplemented


def collections(I, st, frame, t, name, self_ty, tys, trait, method, args, ev):
    D = lambda v: I.deref_full(st, v)   # noqa: E731
    a0 = args[0] if args else EMPTY
    site = (frame.body.id, ev.bb if ev else -3, 5)
    is_map = "HashMap" in name or "BTreeMap" in name
    is_set = "HashSet" in name or "BTreeSet" in name
    if method == "push" or method == "push_back" or method == "push_str":
        I.write_through(st, a0, args[1], path=("[*]",))
        return V("Const(())")
    if method == "insert" and is_map and len(args) == 3:
        old = vfield(D(a0), "[*]")
        I.write_through(st, a0, args[1], path=("[k]",))
        I.write_through(st, a0, args[2], path=("[*]",))
        return old
    if method == "insert" and is_set and len(args) == 2:
        I.write_through(st, a0, args[1], path=("[*]",))
        return mkpred("inserted", D(args[1]))
    if method in ("append",) and len(args) == 2:
        I.write_through(st, a0, vfield(D(args[1]), "[*]"), path=("[*]",))
        return V("Const(())")
    if method in ("extend", "extend_from_slice") and len(args) == 2:
        I.write_through(st, a0, elem_of(I, st, args[1]), path=("[*]",))
        return V("Const(())")
    if method in ("index", "index_mut", "get", "get_mut") and len(args) == 2 and not is_map and \
            (any("ops::Range" in str(x) or "RangeFull" in str(x) for x in t.get("targs", [])) or const_of(D(args[1])) == "RangeFull"
             or {"start", "end"} & set(D(args[1]).fields)):
        return a0      # `v[..]`, `v[a..b]`: a sub-slice of the same collection, not an element
    if method in ELEMENT and args and not (method in ("remove", "pop", "swap_remove")):
        r = elem_ref(I, st, a0)
        if method in ("index", "index_mut", "get", "get_mut") and len(args) == 2 and not is_map:
            c = const_of(D(args[1]))
            if c is not None:   # constant position: remembered on the element reference ('#idx')
                r = Val(r.atoms, dict(r.fields, **{"#may:idx": V("Const(%s)" % c)}))
        return r
    if method in ("entry",) and is_map:
        return elem_ref(I, st, a0)
    if method in ("or_insert", "or_default", "or_insert_with") and args:
        if len(args) > 1:
            I.write_through(st, a0, args[1])
        return a0
    if method in PERMUTE and args and (I.refs_of(a0) or True):
        if method in ("sort_by", "sort_by_key", "sort_unstable_by", "sort_unstable_by_key", "retain",
                      "retain_mut", "dedup_by", "dedup_by_key", "sort_by_cached_key") and len(args) > 1:
            el = elem_of(I, st, a0)
            I.invoke(st, frame, args[1], [el, el], site)
        refs = I.refs_of(a0)
        for a in refs:
            _, objid, path = a[0]
            cur = vget(st.get(objid, EMPTY), path)
            nv = add_may(cur, "perm", "%s@%s" % (method, t.get("span", "?")))
            st[objid] = vset(st.get(objid, EMPTY), tuple(path), nv, len(refs) == 1 and "[*]" not in path)
        if method in ("remove", "swap_remove", "pop") and not is_map:
            return vfield(D(a0), "[*]")
        if method == "remove" and is_map:
            return vfield(D(a0), "[*]")
        if method == "drain":
            return mk_iter(vfield(D(a0), "[*]"))
        return V("Const(())")
    if method in ("len", "capacity"):
        return I.derive(st, [D(a0)], "len")
    if method in ("is_empty",):
        return mkpred("is_empty", D(a0))
    if method in ("contains", "contains_key") and len(args) == 2:
        return mkpred("contains", D(a0), D(args[1]))
    if method == "with_capacity" and tys in ("Vec", "HashMap", "HashSet", "String", "VecDeque"):
        return V("Const(empty)")      # the capacity (often `other.len()`) is not content
    if method in ("new", "with_capacity", "default") and not any(not a.is_empty() and const_of(a) is None
                                                                   for a in args):
        if tys in ("Vec", "HashMap", "HashSet", "BTreeMap", "BTreeSet", "String", "VecDeque"):
            return V("Const(empty)")
    if method == "new" and tys in ("RangeInclusive", "Range") and len(args) == 2:
        return Val(frozenset(), {"start": args[0], "end": args[1]})
    if method in ("new", "pin") and tys in ("Box", "Rc", "Arc", "Cell", "RefCell") and len(args) == 1:
        return a0
    if method == "new_uninit" and tys == "Box":
        # vec![..] lowering: box object filled through a raw pointer, then turned into a Vec
        tmp = (frame.ctx, "box:%s" % (ev.bb if ev else 0))
        st[tmp] = EMPTY
        return Val(frozenset([(("ref", tmp, ()), NOOPS)]))
    if method == "from" and ("HashMap" in name or "BTreeMap" in name):
        el = elem_of(I, st, a0)
        return Val(frozenset(), {"[k]": vfield(el, "0"), "[*]": vfield(el, "1")})
    return NotImplemented


def elem_ref(I, st, a0):
    refs = I.refs_of(a0)
    if refs and not a0.fields:
        pv = I.deref(st, a0)
        if I.refs_of(pv) and not pv.fields:
            return elem_ref(I, st, pv)
        if pv.fields.get("#iter") is not None:
            return pv.fields["[*]"]
        at = set()
        for a in refs:
            _, objid, path = a[0]
            at.add((("ref", objid, tuple(path) + ("[*]",)), NOOPS))
        return Val(frozenset(at))
    return vfield(I.deref_full(st, a0), "[*]")


def storage(I, st, frame, t, name, tys, method, args, ev):
    D = lambda v: I.snapshot(st, v)   # noqa: E731
    a0 = args[0] if args else EMPTY
    site = (frame.body.id, ev.bb if ev else -3, 6)
    if method == "new" or method == "new_ref":
        return I.derive(st, args, "storage_ctor")
    if method in ("inclusive", "exclusive", "inclusive_raw", "exclusive_raw"):
        return I.derive(st, [D(a) for a in args], "bound")
    item, full = item_of(I, st, a0)
    maplike = tys in ("Map", "IndexedMap", "SnapshotMap", "IndexedSnapshotMap", "Prefix", "IndexPrefix",
                      "MultiIndex", "UniqueIndex")
    key = EMPTY
    if ev is not None:
        ev.extra["item"] = item
        ev.extra["item_full"] = full
        ev.extra["sop"] = method
    if method in ("load", "may_load", "has"):
        if maplike and len(args) > 2:
            key = D(args[2])
        if ev is not None:
            ev.extra["key"] = key
        if method == "has":
            return mkpred("has", V("Store(%s)" % item), key)
        return ret_tag(with_tag(V("Store(%s)" % item), "#may:key", key), "cw_storage_plus::%s" % method)
    if method == "save":
        val = D(args[-1])
        if maplike and len(args) > 3:
            key = D(args[2])
        if ev is not None:
            ev.extra["key"] = key
            ev.extra["value"] = val
            ev.extra["write"] = True
        return V("Const(())")
    if method in ("remove", "replace"):
        if maplike and len(args) > 2:
            key = D(args[2])
        if ev is not None:
            ev.extra["key"] = key
            ev.extra["write"] = True
        return V("Const(())")
    if method == "update":
        f = args[-1]
        if maplike and len(args) > 3:
            key = D(args[2])
        cur = with_tag(V("Store(%s)" % item), "#may:key", key)
        r = I.invoke(st, frame, f, [cur], site)
        if r is None:
            r = EMPTY
        if ev is not None:
            ev.extra["key"] = key
            ev.extra["value"] = without_tags_keep_call(r)
            # a closure that can only return Err writes nothing
            ev.extra["write"] = tagvals(r, "#v:" + RES) != {"Err"}
        return r
    if method in ("range", "range_raw", "keys", "keys_raw", "prefix_range", "prefix_range_raw"):
        bounds = I.derive(st, [D(a) for a in args[2:]], "bound")
        pk = a0.fields.get("#may:key", EMPTY) if I.refs_of(a0) == [] else D(a0).fields.get("#may:key", EMPTY)
        bk = Val(bounds.atoms | I.derive(st, [pk], "bound").atoms)
        el = Val(frozenset(), {"0": with_tag(V("Store(%s)#key" % item), "#may:key", bk),
                               "1": with_tag(V("Store(%s)" % item), "#may:key", bk)})
        if ev is not None:
            ev.extra["key"] = bk
        if method.startswith("keys"):
            return mk_iter(vfield(el, "0"))
        return mk_iter(el)
    if method in ("prefix", "sub_prefix", "no_prefix", "no_prefix_raw"):
        k = I.derive(st, [D(a) for a in args[1:]], "bound")
        base = D(a0)
        return with_tag(Val(frozenset(a for a in base.atoms if isinstance(a[0], str))), "#may:key", k)
    if method in ("idx",):
        return a0
    if method in ("item", "is_empty", "first", "last"):
        return with_tag(V("Store(%s)" % item), "#may:key", I.derive(st, [D(a) for a in args[2:]], "bound"))
    if method in ("key", "as_slice", "namespace_bytes"):
        return I.derive(st, args, "bound")
    return NotImplemented


def cosmwasm(I, st, frame, t, name, self_ty, tys, trait, method, args, ev):
    D = lambda v: I.deref_full(st, v)   # noqa: E731
    a0 = args[0] if args else EMPTY
    if name.startswith("cw_utils::"):
        if method == "nonpayable":
            return ret_tag(V("Const(())"), name)
        if method in ("one_coin",):
            info = D(a0)
            return ret_tag(vfield(vfield(info, "funds"), "[*]"), name)
        if method in ("must_pay", "may_pay"):
            info = D(a0)
            return ret_tag(vfield(vfield(vfield(info, "funds"), "[*]"), "amount"), name)
        if method == "calc_range_start_string" or method.startswith("calc_range"):
            return I.derive(st, [D(a) for a in args], "bound")
        return NotImplemented
    if name.startswith("cw_ownable::"):
        if method == "assert_owner":
            return ret_tag(V("Const(())"), name)
        if method == "is_owner":
            return ret_tag(mkpred("is_owner", D(args[1]) if len(args) > 1 else EMPTY), name)
        if ev is not None:
            ev.extra["ownership"] = True
        if method in ("initialize_owner", "update_ownership"):
            if ev is not None:
                ev.extra["write"] = True
                ev.extra["item"] = "ownership"
            return ret_tag(V("Store(ownership)"), name)
        if method == "get_ownership":
            return ret_tag(V("Store(ownership)"), name)
        return NotImplemented
    if name.startswith("cw2::"):
        if ev is not None and method == "set_contract_version":
            ev.extra["write"] = True
            ev.extra["item"] = "contract_info"
        return ret_tag(V("Store(contract_info)"), name)
    if "cosmwasm_std" not in name and "cosmwasm_schema" not in name:
        return NotImplemented
    if method == "addr_validate" and len(args) >= 2:
        return ret_tag(without_call(D(args[1])), name)
    if tys == "QuerierWrapper" or "QuerierWrapper" in name:
        if method == "query_balance":
            return ret_tag(Val(frozenset(), {"denom": without_call(D(args[2])),
                                             "amount": with_tag(V("Query(balance)"), "#may:key",
                                                                I.derive(st, [D(args[1]), D(args[2])], "query"))}),
                           name)
        if method == "query_supply":
            return ret_tag(Val(frozenset(), {"denom": without_call(D(args[1])),
                                             "amount": with_tag(V("Query(supply)"), "#may:key",
                                                                I.derive(st, [D(args[1])], "query"))}), name)
        if method in ("query_wasm_smart", "query"):
            msg = D(args[2]) if len(args) > 2 else EMPTY
            variant = None
            for k in msg.fields:
                if k.startswith("#v:") and "QueryMsg" in k:
                    tv = tagvals(msg, k)
                    if tv and len(tv) == 1:
                        variant = list(tv)[0]
            origin = "Query(%s)" % (variant or "wasm_smart")
            return ret_tag(with_tag(V(origin), "#may:key", I.derive(st, [D(a) for a in args[1:]], "query")), name)
        return ret_tag(with_tag(V("Query(%s)" % method), "#may:key", I.derive(st, [D(a) for a in args[1:]], "query")),
                       name)
    if tys == "Response":
        if method in ("new", "default"):
            return V("Const(Response)")
        if method in ("add_message", "add_submessage"):
            return vset(D(a0), ("messages", "[*]"), D(args[1]), False)
        if method in ("add_messages", "add_submessages"):
            return vset(D(a0), ("messages", "[*]"), D(elem_of(I, st, args[1])), False)
        if method in ("add_attribute", "add_attributes", "add_event", "add_events"):
            return vset(D(a0), ("attributes", "[*]"), I.derive(st, [D(a) for a in args[1:]], "fmt"), False)
        if method == "set_data":
            return vset(D(a0), ("data",), D(args[1]), True)
        return NotImplemented
    if tys == "SubMsg":
        mode = {"reply_on_success": "Success", "reply_on_error": "Error", "reply_always": "Always",
                "new": "Never", "reply_never": "Never"}.get(method)
        if mode:
            v = Val(frozenset(), {"msg": D(a0), "id": D(args[1]) if len(args) > 1 else V("Const(0)"),
                                  "reply_on": V("Const(%s)" % mode)})
            if ev is not None:
                ev.extra["submsg_mode"] = mode
            return v
        if method in ("with_gas_limit", "with_payload"):
            return D(a0)
        return NotImplemented
    if method == "wasm_execute":
        v = Val(frozenset(), {"contract_addr": without_call(D(args[0])), "msg": without_call(D(args[1])),
                              "funds": D(args[2])})
        return ret_tag(v, name)
    if method in ("to_json_binary", "to_json_vec", "to_json_string", "from_json"):
        return without_call(D(a0))
    if method == "coin" and len(args) == 2:
        return Val(frozenset(), {"amount": without_call(D(args[0])), "denom": without_call(D(args[1]))})
    if method == "coins" and len(args) == 2:
        return Val(frozenset(), {"[*]": Val(frozenset(), {"amount": without_call(D(args[0])),
                                                          "denom": without_call(D(args[1]))})})
    if method == "attr":
        return I.derive(st, [D(a) for a in args], "fmt")
    if tys in ("StdError",) or "StdError" in name or "Error" in tys:
        return V("Const(error)")
    if tys in ("DepsMut", "Deps") and method in ("branch", "as_ref", "into_empty"):
        return D(a0)
    if tys == "SubMsgResult" or "SubMsgResult" in name:
        if method in ("is_err", "is_ok"):
            return mkpred(method, D(a0))
        return I.derive(st, [D(a0)], "ext:" + method)
    if tys == "Timestamp":
        if method in ("seconds", "nanos", "from_seconds", "from_nanos", "subsec_nanos"):
            return without_call(D(a0))
        if method.startswith("plus_"):
            return derive_ops(I, st, [D(a) for a in args], ["add"])
        if method.startswith("minus_"):
            return derive_roles(I, st, method, [D(a) for a in args], ["sub"])
    if tys == "Addr":
        if method in ("unchecked", "into_string", "as_str", "to_string", "as_bytes", "as_ref", "clone"):
            return without_call(D(a0))
    return NotImplemented


# first-party helpers modelled as primitives (trusted base; re-derived from their own MIR in the thorough tier)
LOCAL_PRIMITIVES = {
    "mantra_dex_std::coin::aggregate_coins": "regroups coins by denom (lossless: elements keep their origin)",
    "mantra_dex_std::epoch_manager::get_current_epoch": "smart query CurrentEpoch{} to the given epoch manager; returns its .epoch",
}


def local_primitive(I, st, frame, callee_id, args):
    if callee_id == "mantra_dex_std::coin::aggregate_coins":
        a0 = I.deref_full(st, args[0]) if args else EMPTY
        el = I.deref_full(st, elem_of(I, st, a0)) if not a0.is_empty() else EMPTY
        return Val(frozenset(), {"[*]": without_tags(el)})
    if callee_id == "mantra_dex_std::epoch_manager::get_current_epoch":
        return with_tag(V("Query(CurrentEpoch)"), "#may:key", I.derive(st, [I.deref_full(st, a) for a in args[1:]], "query"))
    return NotImplemented
