"""Entry point: ./check <ID> [--tier quick|thorough]"""
import importlib
import os
import sys
import traceback

sys.path.insert(0, os.path.dirname(os.path.abspath(__file__)))
sys.path.insert(0, os.path.dirname(os.path.dirname(os.path.abspath(__file__))))
import extract  # noqa: E402
import base  # noqa: E402


def main():
    if len(sys.argv) < 2:
        print("usage: check <ID> [--tier quick|thorough]")
        return 2
    pid = sys.argv[1]
    tier = os.environ.get("VERIF_TIER", "quick")
    if "--tier" in sys.argv:
        tier = sys.argv[sys.argv.index("--tier") + 1]
    try:
        facts_dir, info = extract.extract()
    except Exception as e:  # the tree does not build: nothing can be decided
        print("ERROR: fact extraction failed: %s" % e)
        return 2
    W = base.World(facts_dir)
    chk = base.Check(pid, tier)
    mod = importlib.import_module("rules.%s" % pid)
    try:
        mod.run(W, chk)
    except Exception:
        traceback.print_exc()
        chk.fail("ENGINE", "internal-error", "rule module raised: %s" % traceback.format_exc()[-600:])
    if tier == "thorough":
        try:
            import thorough
            thorough.run(pid, W, chk)
            if hasattr(mod, "thorough"):
                mod.thorough(W, chk)
        except Exception:
            traceback.print_exc()
            chk.fail("ENGINE", "internal-error-thorough", traceback.format_exc()[-600:])
    return base.finish(chk, W, info, mod.EXPLANATION, mod.ASSUMPTIONS, getattr(mod, "FLOORS", None))


if __name__ == "__main__":
    sys.exit(main())
