"""Loop-carried accumulators: a def-use lint over MIR facts.

Rule: inside a loop, a user variable that lives across iterations (defined before the loop) and is assigned
`a + b` where one operand derives from the loop's element must have its own previous value among the
operands' dependencies.  `fees = base_fees + extra_fee` inside `for extra_fee in ..` counts only the last
element; `fees = fees + extra_fee` accumulates.  Purely structural: CFG loops (SCCs), flow-insensitive
def-use inside the loop body, `&mut` arguments treated as read-modify-write.
"""
import re

ADD = re.compile(r"(::checked_add|::saturating_add|::wrapping_add|::add|::add_assign|::strict_add)$")
PLUMB = re.compile(r"(::branch|::unwrap|::expect|::into|::from|::clone|::try_into|::try_from|::map_err|::ok_or|::ok_or_else|::to_owned|::unwrap_or_default)$")
NEXT = re.compile(r"(Iterator>::next|::next|::pop|::pop_front|::next_back)$")


def _sccs(n, succ):
    index = [None] * n
    low = [0] * n
    on = [False] * n
    st = []
    out = []
    c = [0]
    for root in range(n):
        if index[root] is not None:
            continue
        work = [(root, 0)]
        while work:
            v, i = work.pop()
            if i == 0:
                index[v] = low[v] = c[0]
                c[0] += 1
                st.append(v)
                on[v] = True
            rec = False
            ss = succ[v]
            while i < len(ss):
                w = ss[i]
                i += 1
                if index[w] is None:
                    work.append((v, i))
                    work.append((w, 0))
                    rec = True
                    break
                elif on[w]:
                    low[v] = min(low[v], index[w])
            if rec:
                continue
            if low[v] == index[v]:
                comp = []
                while True:
                    w = st.pop()
                    on[w] = False
                    comp.append(w)
                    if w == v:
                        break
                out.append(comp)
            if work:
                p = work[-1][0]
                low[p] = min(low[p], low[v])
    return out


def _natural_loops(n, succ, entry=0):
    """natural loops from back edges (u -> h with h dominating u); loops sharing a header are merged.  -> [(header, body set)]"""
    pred = [[] for _ in range(n)]
    for u in range(n):
        for v in succ[u]:
            pred[v].append(u)
    # reverse post-order
    seen = [False] * n
    order = []
    st = [(entry, 0)]
    seen[entry] = True
    while st:
        v, i = st.pop()
        if i < len(succ[v]):
            st.append((v, i + 1))
            w = succ[v][i]
            if not seen[w]:
                seen[w] = True
                st.append((w, 0))
        else:
            order.append(v)
    rpo = order[::-1]
    idx = {v: i for i, v in enumerate(rpo)}
    idom = {entry: entry}
    changed = True
    while changed:
        changed = False
        for v in rpo[1:]:
            ps = [p for p in pred[v] if p in idom]
            if not ps:
                continue
            new = ps[0]
            for p in ps[1:]:
                a, b2 = p, new
                while a != b2:
                    while idx[a] > idx[b2]:
                        a = idom[a]
                    while idx[b2] > idx[a]:
                        b2 = idom[b2]
                new = a
            if idom.get(v) != new:
                idom[v] = new
                changed = True

    def dominates(h, u):
        while True:
            if u == h:
                return True
            if u not in idom or idom[u] == u:
                return False
            u = idom[u]
    loops = {}
    for u in rpo:
        for h in succ[u]:
            if h in idom and dominates(h, u):
                body = loops.setdefault(h, {h})
                work = [u]
                while work:
                    x = work.pop()
                    if x in body:
                        continue
                    body.add(x)
                    work.extend(p for p in pred[x] if p in idom)
    return sorted(loops.items(), key=lambda t: len(t[1]))


def _op_locals(op):
    if op is None:
        return []
    if op.get("k") in ("copy", "move"):
        return [op["place"]["l"]]
    return []


def _rv_locals(rv):
    k = rv.get("k")
    if k in ("use", "cast"):
        return _op_locals(rv.get("op"))
    if k == "un":
        return _op_locals(rv.get("a"))
    if k == "bin":
        return _op_locals(rv.get("a")) + _op_locals(rv.get("b"))
    if k in ("ref", "discr", "len"):
        p = rv.get("place")
        return [p["l"]] if p else []
    if k == "agg":
        out = []
        for f in rv.get("ops", []):
            out += _op_locals(f)
        return out
    return []


def _has_deref(p):
    return any(e[0] == "d" for e in p["p"])


def scan_body(b):
    """-> (accumulators, violations): lists of dicts {fn, var, span, why}"""
    blocks = b.blocks
    n = len(blocks)
    succ = [list(b.succ[i]) for i in range(n)]
    names = dict(b.varname)
    # body-wide: which local a `&mut` reference points into
    refmut = {}
    for blk in blocks:
        for s in blk["stmts"]:
            if s["k"] == "assign" and s["rv"].get("k") == "ref" and s["rv"].get("mut") and not s["lhs"]["p"]:
                refmut[s["lhs"]["l"]] = s["rv"]["place"]["l"]

    def target(r, depth=0):
        while r in refmut and depth < 8:
            r = refmut[r]
            depth += 1
        return r
    # definitions outside loops are needed to decide "lives across iterations"
    def_blocks = {}
    for i, blk in enumerate(blocks):
        for s in blk["stmts"]:
            if s["k"] == "assign" and not _has_deref(s["lhs"]):
                def_blocks.setdefault(s["lhs"]["l"], set()).add(i)
        t = blk["term"]
        if t.get("k") == "call" and t.get("dest") and not _has_deref(t["dest"]):
            def_blocks.setdefault(t["dest"]["l"], set()).add(i)
    for a in range(1, b.argc + 1):
        def_blocks.setdefault(a, set()).add(-1)
    accs, viol = [], []
    for _h, comp in _natural_loops(n, succ):
        inl = set(comp)
        deps = {}
        defs = {}      # local -> list of (kind, info) definitions inside the loop
        elems = set()
        for i in comp:
            blk = blocks[i]
            for s in blk["stmts"]:
                if s["k"] != "assign" or _has_deref(s["lhs"]):
                    continue
                L = s["lhs"]["l"]
                src = _rv_locals(s["rv"])
                d = deps.setdefault(L, set())
                d.update(src)
                if s["lhs"]["p"]:
                    d.add(L)
                    continue
                rv = s["rv"]
                if rv.get("k") == "bin" and rv.get("op", "").replace("WithOverflow", "").replace("Unchecked", "") == "Add":
                    defs.setdefault(L, []).append(("add", src, s.get("span")))
                elif rv.get("k") in ("use", "cast") and len(src) == 1:
                    defs.setdefault(L, []).append(("plumb", src, s.get("span")))
                else:
                    defs.setdefault(L, []).append(("other", src, s.get("span")))
            t = blk["term"]
            if t.get("k") == "call":
                al = []
                for a in t.get("args", []):
                    al += _op_locals(a)
                name = t.get("resolved") or t.get("callee") or ""
                name = re.sub(r"<[^<>]*>", "", re.sub(r"<[^<>]*>", "", name)) if "::" in name else name
                muts = [target(a) for a in al if a in refmut]
                if t.get("dest") and not _has_deref(t["dest"]):
                    D = t["dest"]["l"]
                    deps.setdefault(D, set()).update(al)
                    if not t["dest"]["p"]:
                        if ADD.search(name) and len(al) >= 2:
                            defs.setdefault(D, []).append(("add", al, t.get("span")))
                        elif PLUMB.search(name) and len(al) >= 1:
                            defs.setdefault(D, []).append(("plumb", al[:1], t.get("span")))
                        else:
                            defs.setdefault(D, []).append(("other", al, t.get("span")))
                        if NEXT.search(name):
                            elems.add(D)
                for m in muts:   # read-modify-write through &mut
                    deps.setdefault(m, set()).update(al)
                    deps[m].add(m)
                    if ADD.search(name) and m in names:
                        accs.append({"fn": b.id, "var": names[m], "span": t.get("span"), "form": "add_assign"})

        def closure(start):
            seen = set()
            work = list(start)
            while work:
                x = work.pop()
                if x in seen:
                    continue
                seen.add(x)
                x2 = target(x)
                if x2 != x:
                    work.append(x2)
                work.extend(deps.get(x, ()))
            return seen
        for X, nm in names.items():
            if not any(bi not in inl for bi in def_blocks.get(X, ())):
                continue   # not alive before the loop
            for (kind, src, span) in defs.get(X, []):
                # follow plumbing back to the producing operation
                r, k2, s2 = None, kind, src
                hops = 0
                while k2 == "plumb" and hops < 12:
                    r = s2[0]
                    dd = defs.get(r, [])
                    if len(dd) != 1:
                        k2 = "other"
                        break
                    k2, s2, _ = dd[0]
                    hops += 1
                if k2 != "add":
                    continue
                cl = closure(s2)
                if not (cl & elems or any(closure([e]) & cl for e in ())):
                    # does any operand derive from the loop's element?
                    if not any(e in cl for e in elems):
                        continue
                rec = {"fn": b.id, "var": nm, "span": span, "form": "x = a + b"}
                if X in cl:
                    accs.append(rec)
                else:
                    rec["why"] = "`%s` is re-assigned a sum that does not include its previous value: only the last element counts" % nm
                    viol.append(rec)
    return accs, viol


def _loops(b):
    n = len(b.blocks)
    succ = [list(b.succ[i]) for i in range(n)]
    out = [set(body) for _h, body in _natural_loops(n, succ)]
    return succ, out


def _reach(succ, start, stop=()):
    seen = set()
    work = list(start)
    while work:
        x = work.pop()
        if x in seen or x in stop:
            continue
        seen.add(x)
        work.extend(succ[x])
    return seen


def early_exits(b, next_bb):
    """Exits of the loop driven by the `next()` call in block `next_bb` that reach the loop's normal continuation without
    the iterator being exhausted (`break`, or a `return Ok` would not reach it and is not counted).  -> list of (from, to)"""
    succ, loops = _loops(b)
    inl = None
    for comp in sorted(loops, key=len):
        if next_bb in comp:
            inl = comp
            break
    if inl is None:
        return None
    t = b.blocks[next_bb]["term"]
    sw = t.get("t")
    if sw is None or sw not in inl:
        return None
    ex = [x for x in succ[sw] if x not in inl and not b.blocks[x].get("cleanup") and b.blocks[x]["term"].get("k") != "unreachable"]
    if len(ex) != 1:
        return None
    w0 = ex[0]
    out = []
    # the normal continuation = blocks with a call reachable from the exhausted edge; an error exit only shares the
    # call-free drop / return epilogue with it
    cont = {x for x in _reach(succ, [w0], stop=inl) if b.blocks[x]["term"].get("k") == "call" and not b.blocks[x].get("cleanup")}
    for u in inl:
        for v in succ[u]:
            if v in inl or b.blocks[v].get("cleanup") or (u == sw and v == w0) or b.blocks[v]["term"].get("k") == "unreachable":
                continue
            r = _reach(succ, [v], stop=inl)
            if w0 in r or (r & cont):
                out.append((u, v))
    return out


def chained_updates(b):
    """`x = f(x)` chains in loops: a variable that feeds a call and is re-assigned from that call's result must be
    re-assigned on every path from the call back to the loop head.  -> (chains, violations)"""
    succ, loops = _loops(b)
    names = dict(b.varname)
    refmut = {}
    def_out = {}
    for i, blk in enumerate(b.blocks):
        for s in blk["stmts"]:
            if s["k"] == "assign" and not _has_deref(s["lhs"]):
                def_out.setdefault(s["lhs"]["l"], set()).add(i)
        t = blk["term"]
        if t.get("k") == "call" and t.get("dest") and not _has_deref(t["dest"]):
            def_out.setdefault(t["dest"]["l"], set()).add(i)
    for a in range(1, b.argc + 1):
        def_out.setdefault(a, set()).add(-1)
    chains, viol = [], []
    for inl in loops:
        heads = {v for u in range(len(b.blocks)) if u not in inl for v in succ[u] if v in inl}
        deps = {}
        defsite = {}
        calls = []
        for i in inl:
            blk = b.blocks[i]
            for s in blk["stmts"]:
                if s["k"] != "assign" or _has_deref(s["lhs"]):
                    continue
                L = s["lhs"]["l"]
                deps.setdefault(L, set()).update(_rv_locals(s["rv"]))
                if not s["lhs"]["p"]:
                    defsite.setdefault(L, []).append((i, tuple(_rv_locals(s["rv"]))))
            t = blk["term"]
            if t.get("k") == "call" and t.get("dest") and not _has_deref(t["dest"]):
                al = []
                for a in t.get("args", []):
                    al += _op_locals(a)
                D = t["dest"]["l"]
                deps.setdefault(D, set()).update(al)
                name = t.get("resolved") or t.get("callee") or ""
                if not t["dest"]["p"]:
                    defsite.setdefault(D, []).append((i, tuple(al)))
                if not PLUMB.search(re.sub(r"<[^<>]*>", "", re.sub(r"<[^<>]*>", "", name))) and not NEXT.search(name) and t.get("t") is not None:
                    calls.append((i, D, al, name, t.get("span"), t.get("t")))

        def closure(start):
            seen = set()
            work = list(start)
            while work:
                x = work.pop()
                if x in seen:
                    continue
                seen.add(x)
                work.extend(deps.get(x, ()))
            return seen
        for X, nm in names.items():
            if not any(bi not in inl for bi in def_out.get(X, ())) or X not in defsite:
                continue
            for (ci, D, al, name, span, nxt) in calls:
                if X not in closure(al):
                    continue
                upd = {bi for (bi, src) in defsite[X] if D in closure(src)}
                if not upd or nxt not in inl:
                    continue
                rec = {"fn": b.id, "var": nm, "call": name.split("<")[0][-60:], "span": span}
                r = _reach([[y for y in succ[x] if y in inl] for x in range(len(b.blocks))], [nxt], stop=upd)
                if r & heads and ci not in upd:
                    rec["why"] = "`%s` feeds `%s` and is re-assigned from its result, but not on every path back to the loop head: a later iteration can reuse the stale value" % (nm, rec["call"])
                    viol.append(rec)
                else:
                    chains.append(rec)
    return chains, viol


def scan(F, crates):
    accs, viol = [], []
    nb = 0
    for c in crates:
        for b in F.fns(c):
            if b.kind not in ("fn", "closure"):
                continue
            nb += 1
            a, v = scan_body(b)
            accs += a
            viol += v
    return nb, accs, viol


if __name__ == "__main__":
    import sys
    import os
    sys.path.insert(0, os.path.dirname(os.path.abspath(__file__)))
    import facts
    import extract
    fd, _ = extract.extract()
    F = facts.Facts(fd)
    nb, accs, viol = scan(F, ["pool_manager", "farm_manager", "epoch_manager", "fee_collector", "mantra_dex_std"])
    print(nb, "bodies;", len(accs), "accumulators;", len(viol), "violations")
    for c in ["pool_manager", "farm_manager", "epoch_manager", "fee_collector", "mantra_dex_std"]:
        for b in F.fns(c):
            if b.kind in ("fn", "closure"):
                ch, vi = chained_updates(b)
                for x in ch:
                    print("  CHAIN", x["fn"], x["var"], x["call"], x["span"])
                for x in vi:
                    print("  CHAIN-VIOL", x["fn"], x["var"], x["call"], x["span"])
    for a in accs:
        print("  ACC ", a["fn"], a["var"], a["form"], a["span"])
    for v in viol:
        print("  VIOL", v["fn"], v["var"], v["span"], v["why"])
