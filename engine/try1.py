import sys, time
sys.path.insert(0, '/verif/engine')
from facts import Facts
from absint import *
F = Facts(sys.argv[1])
entry = sys.argv[2]
variant = sys.argv[3] if len(sys.argv) > 3 else None
I = Interp(F)
b = F.get(entry)
args = []
for i in range(1, b.argc + 1):
    nm = b.varname.get(i, 'p%d' % i).lstrip('_')
    v = V(nm)
    if nm == 'msg' and variant:
        ty = b.locals[i]
        v = with_tag(v, '#v:' + ty, V('Const(%s)' % variant))
    args.append(v)
t = time.time()
ret, st = I.run_entry(entry, args)
print('time', round(time.time() - t, 2), 'instances', I.fn_instances, 'visits', I.block_visits, 'events', len(I.events))
print('RET', show(ret) if ret is not None else None)
print('unhandled:', sorted(I.unhandled.items(), key=lambda x: -x[1])[:40])
print('warnings:', I.warnings[:20])
for k, ev in I.events.items():
    if ev.kind == 'call' and (ev.extra.get('write') or 'Msg' in ev.name or 'wasm_execute' in ev.name):
        print(ev.kind, ev.name, ev.span, ev.extra.get('item'), 'key=', show(ev.extra.get('key', EMPTY)), '\n     value=', show(ev.extra.get('value', EMPTY))[:1500])
    if ev.kind == 'agg' and ('BankMsg' in ev.name or 'WasmMsg' in ev.name):
        print('AGG', ev.name, ev.span, [ (f, show(v)[:600]) for f, v in zip(ev.extra['fields'], ev.vals)])
