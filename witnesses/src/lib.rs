//! Compile-fail witnesses (rustdoc `compile_fail` with an error code, run with
//! `cargo +nightly test --doc`): a query entry point receives `Deps`, whose `storage` is
//! `&dyn Storage`; writing any storage item through it does not type-check.  Each witness is
//! paired with a compiling twin that differs only by `DepsMut`, so a witness that fails for the
//! wrong reason (bad path, bad value) is noticed.

/// Writing the pool-manager config from a query context must not type-check.
/// ```compile_fail,E0308
/// use cosmwasm_std::Deps;
/// use pool_manager::state::{Config, CONFIG};
/// pub fn w(deps: Deps, c: &Config) { let _ = CONFIG.save(deps.storage, c); }
/// ```
/// Twin (compiles):
/// ```
/// use cosmwasm_std::DepsMut;
/// use pool_manager::state::{Config, CONFIG};
/// pub fn w(deps: DepsMut, c: &Config) { let _ = CONFIG.save(deps.storage, c); }
/// ```
pub struct PoolConfigWrite;

/// Writing a pool from a query context must not type-check.
/// ```compile_fail,E0308
/// use cosmwasm_std::Deps;
/// use mantra_dex_std::pool_manager::PoolInfo;
/// use pool_manager::state::POOLS;
/// pub fn w(deps: Deps, p: &PoolInfo) { let _ = POOLS.save(deps.storage, "p.1", p); }
/// ```
/// Twin (compiles):
/// ```
/// use cosmwasm_std::DepsMut;
/// use mantra_dex_std::pool_manager::PoolInfo;
/// use pool_manager::state::POOLS;
/// pub fn w(deps: DepsMut, p: &PoolInfo) { let _ = POOLS.save(deps.storage, "p.1", p); }
/// ```
pub struct PoolWrite;

/// Writing a farm from a query context must not type-check.
/// ```compile_fail,E0308
/// use cosmwasm_std::Deps;
/// use mantra_dex_std::farm_manager::Farm;
/// use farm_manager::state::FARMS;
/// pub fn w(deps: Deps, f: &Farm) { let _ = FARMS.save(deps.storage, "f-1", f); }
/// ```
/// Twin (compiles):
/// ```
/// use cosmwasm_std::DepsMut;
/// use mantra_dex_std::farm_manager::Farm;
/// use farm_manager::state::FARMS;
/// pub fn w(deps: DepsMut, f: &Farm) { let _ = FARMS.save(deps.storage, "f-1", f); }
/// ```
pub struct FarmWrite;

/// Removing the last-claimed cursor from a query context must not type-check.
/// ```compile_fail,E0308
/// use cosmwasm_std::{Addr, Deps};
/// use farm_manager::state::LAST_CLAIMED_EPOCH;
/// pub fn w(deps: Deps, a: &Addr) { LAST_CLAIMED_EPOCH.remove(deps.storage, a); }
/// ```
/// Twin (compiles):
/// ```
/// use cosmwasm_std::{Addr, DepsMut};
/// use farm_manager::state::LAST_CLAIMED_EPOCH;
/// pub fn w(deps: DepsMut, a: &Addr) { LAST_CLAIMED_EPOCH.remove(deps.storage, a); }
/// ```
pub struct CursorRemove;
