#!/usr/bin/env python3
"""Apply each seeded patch to /repo, run the given checks (default: all in MANIFEST), undo.
usage: tools/seedtest.py [--dir D ...] [--ids C01,C02] [--only name-substr]"""
import json, os, subprocess, sys, glob
VERIF = os.path.dirname(os.path.dirname(os.path.abspath(__file__)))
args = sys.argv[1:]
dirs = []
ids = None
only = None
while args:
    a = args.pop(0)
    if a == "--dir": dirs.append(args.pop(0))
    elif a == "--ids": ids = args.pop(0).split(",")
    elif a == "--only": only = args.pop(0)
if not dirs:
    dirs = [os.path.join(VERIF, "seeded")]
man = json.load(open(os.path.join(VERIF, "MANIFEST.json")))
if ids is None:
    ids = [c["property_id"] for c in man["checks"]]
patches = []
for d in dirs:
    patches += sorted(glob.glob(os.path.join(d, "**", "patch.diff"), recursive=True))
st = subprocess.run(["git", "-C", "/repo", "status", "--porcelain"], capture_output=True, text=True).stdout.strip()
if st:
    print("refusing: /repo working tree is dirty:\n" + st); sys.exit(2)
res = {}
for p in patches:
    name = os.path.relpath(os.path.dirname(p), os.path.dirname(os.path.dirname(p))) if "mut" not in p.split("/")[2] else p.split("-out/")[1].rsplit("/",1)[0]
    if only and only not in p: continue
    r = subprocess.run(["git", "-C", "/repo", "apply", p], capture_output=True, text=True)
    if r.returncode != 0:
        print("%-28s APPLY FAILED %s" % (name, r.stderr.strip()[:200])); continue
    fired = []
    try:
        import concurrent.futures as cf
        subprocess.run([sys.executable, os.path.join(VERIF, "engine", "extract.py")], capture_output=True, text=True)   # one shared extraction

        def one(i):
            return i, subprocess.run([os.path.join(VERIF, "check"), i], capture_output=True, text=True)
        with cf.ThreadPoolExecutor(max_workers=10) as ex:
            for i, rr in ex.map(one, ids):
                if rr.returncode != 0:
                    lines = [l for l in rr.stdout.splitlines() if l.strip().startswith("FAIL")]
                    fired.append((i, rr.returncode, lines[:3], sorted({l.strip().split()[1] for l in lines if len(l.split()) > 1})))
    finally:
        subprocess.run(["git", "-C", "/repo", "checkout", "--", "."], check=True)
    res[name] = fired
    if "/seeded/" in p:
        dp = os.path.join(VERIF, "seeded", "DETECTION.json")
        det = json.load(open(dp)) if os.path.exists(dp) else {}
        if len(ids) >= 19:
            det[os.path.basename(os.path.dirname(p))] = {i: rules for i, rc, _, rules in fired if rc == 1}
            json.dump(det, open(dp, "w"), indent=1, sort_keys=True)
    print("%-28s %s" % (name, "DETECTED by " + ",".join("%s(rc%d)" % (i, rc) for i, rc, _, _r in fired) if fired else "MISSED"))
    for i, rc, lines, _r in fired:
        for l in lines: print("        %s %s" % (i, l.strip()[:260]))
