#!/usr/bin/env python3
"""Regenerate the detection table of DESIGN.md section 7 from seeded/DETECTION.json and the seeded corpus."""
import json, os, re
VERIF = os.path.dirname(os.path.dirname(os.path.abspath(__file__)))
det = json.load(open(os.path.join(VERIF, "seeded", "DETECTION.json")))


def what(d):
    p = os.path.join(VERIF, "seeded", d, "patch.diff")
    files = re.findall(r"^\+\+\+ b/(.*)$", open(p).read(), re.M)
    fn = re.findall(r"^@@.*@@.*?fn (\w+)", open(p).read(), re.M)
    short = ", ".join(sorted({f.replace("contracts/", "").replace("/src", "") for f in files}))
    return short + (" :: " + ", ".join(dict.fromkeys(fn)) if fn else "")


rows = []
own_hit = own_tot = any_hit = 0
for d in sorted(os.listdir(os.path.join(VERIF, "seeded"))):
    if not os.path.exists(os.path.join(VERIF, "seeded", d, "patch.diff")):
        continue
    v = det.get(d)
    if v is None:
        rows.append("| %s | %s | (not run) |" % (d, what(d)))
        continue
    if isinstance(v, list):
        v = {k: [] for k in v}
    prop = d.split("-")[0]
    if prop.startswith("C"):
        own_tot += 1
        own_hit += 1 if prop in v else 0
    any_hit += 1 if v else 0
    cell = "; ".join("%s (%s)" % (k, ", ".join(r[:3])) if r else k for k, r in sorted(v.items())) or "**missed**"
    rows.append("| %s | %s | %s |" % (d, what(d), cell))
n = len(rows)
head = ("%d seeded changes; %d reported by at least one check; of the %d written against a property, %d are reported by that property's own check "
        "(the rest by a neighbouring property's check).\n\n| seeded change | touches | reported by (rules) |\n|---|---|---|\n" % (n, any_hit, own_tot, own_hit))
table = head + "\n".join(rows) + "\n"
dp = os.path.join(VERIF, "DESIGN.md")
s = open(dp).read()
if "DETECTION_TABLE_PLACEHOLDER" in s:
    s = s.replace("DETECTION_TABLE_PLACEHOLDER", "<!-- DETECTION:BEGIN -->\n" + table + "<!-- DETECTION:END -->")
else:
    s = re.sub(r"<!-- DETECTION:BEGIN -->.*?<!-- DETECTION:END -->", lambda m: "<!-- DETECTION:BEGIN -->\n" + table + "<!-- DETECTION:END -->", s, flags=re.S)
open(dp, "w").write(s)
print(head.split("\n")[0])
