#!/usr/bin/env python3
"""Regenerate MANIFEST.json from the rule modules present under rules/."""
import importlib, json, os, sys
VERIF = os.path.dirname(os.path.dirname(os.path.abspath(__file__)))
sys.path.insert(0, VERIF); sys.path.insert(0, os.path.join(VERIF, "engine"))
ids = [json.loads(l)["id"] for l in open(os.path.join(VERIF, "properties.jsonl"))]
NA = {
 "C19": "numeric accuracy of Newton iterations in fixed-width integers vs the exact Curve invariant over a value range: no clause is visible in the shape of the code; static analysis in reach cannot bound it (see DESIGN.md C19)",
}
man = json.load(open(os.path.join(VERIF, "MANIFEST.json")))
checks = []; na = []
served = []
for i in ids:
    p = os.path.join(VERIF, "rules", i + ".py")
    if i in NA or not os.path.exists(p):
        na.append({"property_id": i, "reason": NA.get(i, "check not built yet in this round (planned, see DESIGN.md)")})
        continue
    m = importlib.import_module("rules." + i)
    served.append(i)
    checks.append({
        "property_id": i,
        "quick_cmd": "./check %s --tier quick" % i,
        "thorough_cmd": "./check %s --tier thorough" % i,
        "evidence_file": "/verif/evidence/%s.json" % i,
        "replay_cmd_template": "cat {path}",
        "engine": "absint",
        "level_claimed": {"category": "other", "text": m.LEVEL_TEXT, "design_ref": "DESIGN.md section 4, " + i},
        "level_note": m.LEVEL_NOTE,
        "technique": m.TECHNIQUE,
    })
man["checks"] = checks
man["not_applicable"] = na
for e in man.get("engines", []):
    e["serves_properties"] = served
man["notes"] = ("Static analysis only: every check rebuilds MIR facts from /repo's current working tree (cached by content hash) "
                "and evaluates structural rules over all CFG paths. Level 'other' = structural necessary conditions of the property, "
                "exhaustive over paths, no numeric claims. known_findings.json lists fixed defects (suppresses nothing).")
json.dump(man, open(os.path.join(VERIF, "MANIFEST.json"), "w"), indent=1)
print("claimed:", served, "not_applicable:", [x["property_id"] for x in na])
