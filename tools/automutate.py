#!/usr/bin/env python3
"""Systematic mutation sweep (development tool, not a registered check).
Generates single-site syntactic mutants of the contracts' production code, runs all checks on each (parallel workers, each with its
own scratch export of /repo HEAD and cargo target dir) and records which are reported.  Unreported mutants can then be run against
the test suite (--tests) to find the ones that survive it: those are the candidates to read by hand.
usage: tools/automutate.py --out DIR [--workers 4] [--limit N] [--seed S] [--files glob] [--tests]"""
import concurrent.futures as cf, glob, json, os, random, re, shutil, subprocess, sys, tempfile
VERIF = os.path.dirname(os.path.dirname(os.path.abspath(__file__)))


def arg(name, default=None):
    return sys.argv[sys.argv.index(name) + 1] if name in sys.argv else default


OUT = arg("--out", "/tmp/automut")
WORKERS = int(arg("--workers", "4"))
LIMIT = int(arg("--limit", "100000"))
SEED = int(arg("--seed", "1"))
FILES = arg("--files", "contracts/*/src/**/*.rs")
os.makedirs(OUT, exist_ok=True)
man = json.load(open(os.path.join(VERIF, "MANIFEST.json")))
IDS = [c["property_id"] for c in man["checks"]]

OPS = [
    ("rel", re.compile(r" (<=|>=|<|>|==|!=) "), {"<": "<=", "<=": "<", ">": ">=", ">=": ">", "==": "!=", "!=": "=="}),
    ("arith", re.compile(r"\b(checked_add|checked_sub|saturating_sub|checked_mul_floor|checked_mul_ceil|checked_div_floor|checked_div_ceil|to_uint_floor|to_uint_ceil|checked_mul|checked_div)\b"),
     {"checked_add": "checked_sub", "checked_sub": "checked_add", "saturating_sub": "checked_sub", "checked_mul_floor": "checked_mul_ceil",
      "checked_mul_ceil": "checked_mul_floor", "checked_div_floor": "checked_div_ceil", "checked_div_ceil": "checked_div_floor",
      "to_uint_floor": "to_uint_ceil", "to_uint_ceil": "to_uint_floor", "checked_mul": "checked_div", "checked_div": "checked_mul"}),
    ("minmax", re.compile(r"\.(min|max)\("), {"min": "max", "max": "min"}),
    ("bool", re.compile(r"\b(true|false)\b"), {"true": "false", "false": "true"}),
    ("andor", re.compile(r" (&&|\|\|) "), {"&&": "||", "||": "&&"}),
    ("plus1", re.compile(r" (\+|-) 1u64\b"), {"+": "-", "-": "+"}),
    ("not", re.compile(r"(?<![!=<>])!(?=[a-z_(])"), None),          # drop a negation
]


def prod_lines(path):
    """line numbers (0-based) of production code: stops at the first #[cfg(test)]"""
    lines = open(path).read().split("\n")
    out = []
    for i, l in enumerate(lines):
        if "#[cfg(test)]" in l:
            break
        s = l.strip()
        if s.startswith("//") or s.startswith("#[") or s.startswith("use ") or not s:
            continue
        out.append(i)
    return lines, out


def gen():
    muts = []
    for f in sorted(glob.glob(os.path.join("/repo", FILES), recursive=True)):
        rel = os.path.relpath(f, "/repo")
        if "/tests/" in rel or rel.endswith("tests.rs") or "/bin/" in rel or rel.endswith("error.rs") or rel.endswith("lib.rs") or rel.endswith("mod.rs"):
            continue
        lines, idx = prod_lines(f)
        for i in idx:
            l = lines[i]
            code = l.split("//")[0]
            for (name, rx, table) in OPS:
                for m in rx.finditer(code):
                    if name == "not":
                        new = l[:m.start()] + l[m.end():]
                        what = "drop `!`"
                    else:
                        tok = m.group(1)
                        new = l[:m.start(1)] + table[tok] + l[m.end(1):]
                        what = "%s -> %s" % (tok, table[tok])
                    muts.append({"file": rel, "line": i + 1, "op": name, "what": what, "old": l, "new": new})
            # swap two adjacent simple arguments on one line: f(a, b) -> f(b, a)
            if "--swaps" in sys.argv:
                for m in re.finditer(r"\(([&*]?[a-z_][\w.]*(?:\(\))?), ([&*]?[a-z_][\w.]*(?:\(\))?)([,)])", code):
                    a, b2 = m.group(1), m.group(2)
                    if a != b2:
                        new = l[:m.start(1)] + b2 + ", " + a + l[m.end(2):]
                        muts.append({"file": rel, "line": i + 1, "op": "argswap", "what": "swap `%s` / `%s`" % (a, b2), "old": l, "new": new})
            # whole-statement removal of a single-line ensure!/early return guard
            if re.match(r"^\s*ensure!\(.*\);\s*$", l):
                muts.append({"file": rel, "line": i + 1, "op": "ensure", "what": "remove ensure!", "old": l, "new": ""})
        # swap two adjacent one-line arguments of a multi-line call, or the values of two adjacent struct-literal fields
        if "--swaps" in sys.argv:
            for i in idx:
                if i + 1 >= len(lines):
                    continue
                l1, l2 = lines[i], lines[i + 1]
                m1 = re.match(r"^(\s+)([&*]?[a-z_][\w.]*(?:\(\))?(?:\.clone\(\)|\.to_string\(\))?),$", l1)
                m2 = re.match(r"^(\s+)([&*]?[a-z_][\w.]*(?:\(\))?(?:\.clone\(\)|\.to_string\(\))?),$", l2)
                if m1 and m2 and m1.group(1) == m2.group(1) and m1.group(2) != m2.group(2):
                    muts.append({"file": rel, "line": i + 1, "op": "argswap2", "what": "swap lines `%s` / `%s`" % (m1.group(2), m2.group(2)),
                                 "old": l1 + "\n" + l2, "new": l2 + "\n" + l1, "two": True})
                f1 = re.match(r"^(\s+)([a-z_]\w*): (.+),$", l1)
                f2 = re.match(r"^(\s+)([a-z_]\w*): (.+),$", l2)
                if f1 and f2 and f1.group(1) == f2.group(1) and f1.group(3) != f2.group(3) and "{" not in l1 + l2 and "(" not in f1.group(3)[:1]:
                    muts.append({"file": rel, "line": i + 1, "op": "fieldswap", "what": "swap values of `%s` / `%s`" % (f1.group(2), f2.group(2)),
                                 "old": l1 + "\n" + l2, "new": "%s%s: %s,\n%s%s: %s," % (f1.group(1), f1.group(2), f2.group(3), f2.group(1), f2.group(2), f1.group(3)), "two": True})
        # multi-line ensure!( ... );
        src = "\n".join(lines)
        for m in re.finditer(r"\n([ \t]*)ensure!\(\n(.*?)\n\1\);", src, re.S):
            ln = src[:m.start() + 1].count("\n") + 1
            if ln - 1 in idx:
                muts.append({"file": rel, "line": ln, "op": "ensure", "what": "remove ensure! block", "span": [m.start() + 1, m.end()], "old": m.group(0)[1:], "new": ""})
    return muts


def apply(root, mu):
    p = os.path.join(root, mu["file"])
    s = open(p).read()
    if "span" in mu:
        a, b = mu["span"]
        assert s[a:b] == mu["old"], "span mismatch"
        s2 = s[:a] + s[b:]
    elif mu.get("two"):
        lines = s.split("\n")
        assert "\n".join(lines[mu["line"] - 1:mu["line"] + 1]) == mu["old"], "lines mismatch"
        lines[mu["line"] - 1:mu["line"] + 1] = mu["new"].split("\n")
        s2 = "\n".join(lines)
    else:
        lines = s.split("\n")
        assert lines[mu["line"] - 1] == mu["old"], "line mismatch"
        lines[mu["line"] - 1] = mu["new"]
        s2 = "\n".join(lines)
    open(p, "w").write(s2)
    return s


def worker(wid, chunk):
    root = os.path.join(OUT, "w%d" % wid)
    shutil.rmtree(root, ignore_errors=True)
    os.makedirs(root)
    ar = subprocess.Popen(["git", "-C", "/repo", "archive", "HEAD"], stdout=subprocess.PIPE)
    subprocess.run(["tar", "-x", "-C", root], stdin=ar.stdout, check=True)
    env = dict(os.environ, MDX_REPO=root, MDX_TARGET=os.path.join(OUT, "target%d" % wid))
    res = []
    for mu in chunk:
        orig = apply(root, mu)
        try:
            r0 = subprocess.run([sys.executable, os.path.join(VERIF, "engine", "extract.py")], capture_output=True, text=True, env=env)
            if r0.returncode != 0:
                mu["result"] = "nocompile"
            else:
                fired = {}
                with cf.ThreadPoolExecutor(max_workers=5) as ex:
                    for i, rr in ex.map(lambda i: (i, subprocess.run([os.path.join(VERIF, "check"), i], capture_output=True, text=True, env=env)), IDS):
                        if rr.returncode != 0:
                            fired[i] = sorted({l.strip().split()[1] for l in rr.stdout.splitlines() if l.strip().startswith("FAIL") and len(l.split()) > 1})
                mu["result"] = "reported" if fired else "quiet"
                mu["fired"] = fired
        finally:
            open(os.path.join(root, mu["file"]), "w").write(orig)
        res.append(mu)
        with open(os.path.join(OUT, "results.w%d.jsonl" % wid), "a") as f:
            f.write(json.dumps({k: v for k, v in mu.items() if k not in ("span",)}) + "\n")
    return res


def test_worker(wid, chunk):
    """run the project's test suite on mutants the checks did not report"""
    root = os.path.join(OUT, "t%d" % wid)
    if not os.path.exists(root):
        os.makedirs(root)
        ar = subprocess.Popen(["git", "-C", "/repo", "archive", "HEAD"], stdout=subprocess.PIPE)
        subprocess.run(["tar", "-x", "-C", root], stdin=ar.stdout, check=True)
    env = dict(os.environ, CARGO_TARGET_DIR=os.path.join(OUT, "ttarget%d" % wid), CARGO_NET_OFFLINE="true")
    for mu in chunk:
        p = os.path.join(root, mu["file"])
        orig = open(p).read()
        try:
            if mu.get("two"):
                lines = orig.split("\n")
                assert "\n".join(lines[mu["line"] - 1:mu["line"] + 1]) == mu["old"]
                lines[mu["line"] - 1:mu["line"] + 1] = mu["new"].split("\n")
                open(p, "w").write("\n".join(lines))
            elif "\n" in mu["old"]:      # block removal recorded without span: locate by text
                assert orig.count(mu["old"]) >= 1
                open(p, "w").write(orig.replace(mu["old"], "", 1))
            else:
                lines = orig.split("\n")
                assert lines[mu["line"] - 1] == mu["old"]
                lines[mu["line"] - 1] = mu["new"]
                open(p, "w").write("\n".join(lines))
            r = subprocess.run("cargo nextest run --workspace --no-fail-fast --offline 2>&1 | grep -E '^\\s+Summary|^\\s+(FAIL|SIGABRT|SIGSEGV)\\b|^error' | sort -u | head -12",
                               shell=True, cwd=root, env=env, capture_output=True, text=True)
            out = r.stdout
            m = re.search(r"(\d+) tests run: (\d+) passed(?:.*?(\d+) failed)?", out)
            mu["tests"] = {"summary": m.group(0) if m else out[:200], "failed": [l.split("] ", 1)[-1].strip() for l in out.splitlines() if "FAIL" in l][:6]}
            mu["survives_tests"] = bool(m) and not m.group(3) and m.group(1) == m.group(2)
        finally:
            open(p, "w").write(orig)
        with open(os.path.join(OUT, "tests.w%d.jsonl" % wid), "a") as f:
            f.write(json.dumps({k: v for k, v in mu.items() if k not in ("span",)}) + "\n")


if __name__ == "__main__":
    if "--tests" in sys.argv:
        res = []
        for p in glob.glob(os.path.join(OUT, "results.w*.jsonl")):
            res += [json.loads(l) for l in open(p)]
        done = set()
        for p in glob.glob(os.path.join(OUT, "tests.w*.jsonl")):
            for l in open(p):
                d = json.loads(l)
                done.add((d["file"], d["line"], d["what"], d["old"]))
        todo = [m for m in res if m["result"] == "quiet" and (m["file"], m["line"], m["what"], m["old"]) not in done][:LIMIT]
        print("%d quiet mutants to run against the test suite on %d workers" % (len(todo), WORKERS))
        chunks = [todo[i::WORKERS] for i in range(WORKERS)]
        with cf.ThreadPoolExecutor(max_workers=WORKERS) as ex:
            list(ex.map(lambda t: test_worker(*t), enumerate(chunks)))
        sys.exit(0)
    muts = gen()
    if "--only-swaps" in sys.argv:
        muts = [m for m in muts if m["op"] in ("argswap", "argswap2", "fieldswap")]
    random.Random(SEED).shuffle(muts)
    done = set()
    for p in glob.glob(os.path.join(OUT, "results.w*.jsonl")):
        for l in open(p):
            d = json.loads(l)
            done.add((d["file"], d["line"], d["what"], d["old"]))
    todo = [m for m in muts if (m["file"], m["line"], m["what"], m["old"]) not in done][:LIMIT]
    print("%d mutants generated, %d already done, running %d on %d workers" % (len(muts), len(done), len(todo), WORKERS))
    if "--list" in sys.argv:
        sys.exit(0)
    chunks = [todo[i::WORKERS] for i in range(WORKERS)]
    with cf.ThreadPoolExecutor(max_workers=WORKERS) as ex:
        allr = [r for rs in ex.map(lambda t: worker(*t), enumerate(chunks)) for r in rs]
    n = {}
    for r in allr:
        n[r["result"]] = n.get(r["result"], 0) + 1
    print(n)
