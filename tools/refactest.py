#!/usr/bin/env python3
"""Apply behaviour-preserving refactoring patches to a scratch export of /repo HEAD and run all checks
(MDX_REPO=<scratch>): any alarm is a false alarm of the machinery.
usage: tools/refactest.py <dir-with-k/patch.diff> [--ids C01,..]"""
import glob, json, os, subprocess, sys, tempfile, shutil
VERIF = os.path.dirname(os.path.dirname(os.path.abspath(__file__)))
d = sys.argv[1]
ids = None
if "--ids" in sys.argv:
    ids = sys.argv[sys.argv.index("--ids") + 1].split(",")
man = json.load(open(os.path.join(VERIF, "MANIFEST.json")))
ids = ids or [c["property_id"] for c in man["checks"]]
for p in sorted(glob.glob(os.path.join(d, "*", "patch.diff"))):
    name = p.split("/")[-3] + "/" + p.split("/")[-2]
    tmp = tempfile.mkdtemp(prefix="mdx-ref-")
    try:
        ar = subprocess.Popen(["git", "-C", "/repo", "archive", "HEAD"], stdout=subprocess.PIPE)
        subprocess.run(["tar", "-x", "-C", tmp], stdin=ar.stdout, check=True)
        r = subprocess.run(["git", "apply", "--whitespace=nowarn", p], cwd=tmp, capture_output=True, text=True)
        if r.returncode != 0:
            print("%-14s APPLY FAILED %s" % (name, r.stderr[:200])); continue
        fired = []
        env = dict(os.environ, MDX_REPO=tmp)
        import concurrent.futures as cf
        subprocess.run([sys.executable, os.path.join(VERIF, "engine", "extract.py")], capture_output=True, text=True, env=env)
        with cf.ThreadPoolExecutor(max_workers=10) as ex:
            for i, rr in ex.map(lambda i: (i, subprocess.run([os.path.join(VERIF, "check"), i], capture_output=True, text=True, env=env)), ids):
                if rr.returncode != 0:
                    fired.append((i, [l.strip() for l in rr.stdout.splitlines() if l.strip().startswith("FAIL") or "ERROR" in l][:4]))
        print("%-14s %s" % (name, "FALSE ALARM in " + ",".join(i for i, _ in fired) if fired else "quiet"))
        for i, ls in fired:
            for l in ls: print("        %s %s" % (i, l[:300]))
    finally:
        shutil.rmtree(tmp, ignore_errors=True)
