#!/bin/bash
# usage: tools/mkexport.sh <dir> [patch...]  -> scratch export of /repo HEAD with patches applied (use with MDX_REPO=<dir>)
set -e
D=$1; shift
rm -rf "$D"; mkdir -p "$D"
git -C /repo archive HEAD | tar -x -C "$D"
for p in "$@"; do (cd "$D" && git apply --whitespace=nowarn "$p"); done
echo "$D"
