#!/usr/bin/env python3
"""Copy confirmed mutants from /tmp/mut-out into /verif/seeded/<ID>-<k>/ with meta.json."""
import json, os, re, shutil, sys
VERIF = os.path.dirname(os.path.dirname(os.path.abspath(__file__)))
OUT = sys.argv[1] if len(sys.argv) > 1 else '/tmp/mut-out'       # e.g. /tmp/mut2-out
SUF = sys.argv[2] if len(sys.argv) > 2 else ''                    # e.g. r2  -> seeded/C02-r2-1
log = open(OUT + '/CONFIRM.log').read().splitlines()
conf = {}
for l in log:
    m = re.match(r'(C\d+)-(\d+) CONFIRMED=(\w+) \| (.*)', l)
    if m:
        conf[(m.group(1), m.group(2))] = (m.group(3), m.group(4))
det = {}
dp = os.path.join(VERIF, 'seeded', 'DETECTION.json')
if os.path.exists(dp):
    det = json.load(open(dp))
for (pid, k), (ok, line) in sorted(conf.items()):
    src = '%s/%s/%s' % (OUT, pid, k)
    if ok != 'YES' or not os.path.exists(src + '/patch.diff'):
        continue
    dst = os.path.join(VERIF, 'seeded', '%s-%s%s' % (pid, SUF + '-' if SUF else '', k))
    os.makedirs(dst, exist_ok=True)
    for f in ('patch.diff', 'demo.diff', 'README.md'):
        if os.path.exists(os.path.join(src, f)):
            shutil.copy(os.path.join(src, f), os.path.join(dst, f))
    readme = open(os.path.join(src, 'README.md')).read() if os.path.exists(os.path.join(src, 'README.md')) else ''
    needs = ''
    for para in re.split(r'\n\s*\n', readme):
        if re.search(r'\bneed|manifest|requires', para, re.I):
            needs = ' '.join(para.split())[:600]
            break
    files = re.findall(r'^\+\+\+ b/(.*)$', open(src + '/patch.diff').read(), re.M)
    meta = {"property": pid, "origin": "independent sub-agent given only the property text and a scratch worktree",
            "changed_files": files, "needs_to_manifest": needs or "see README.md",
            "what_i_ran": "scratch worktree /tmp/wt-confirm: (1) patch alone + full suite, (2) patch + demo, (3) demo alone -> " + line,
            "detected_by": det.get('%s-%s' % (pid, k), "see seeded/DETECTION.json")}
    json.dump(meta, open(os.path.join(dst, 'meta.json'), 'w'), indent=1)
    print('imported', pid, k)
