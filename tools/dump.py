#!/usr/bin/env python3
"""tools/dump.py <contract> <which> <Variant[/.field/Sub]> [--opaque fnid,...] : print effects + values"""
import sys, os
VERIF = os.path.dirname(os.path.dirname(os.path.abspath(__file__)))
sys.path.insert(0, os.path.join(VERIF, "engine")); sys.path.insert(0, VERIF)
from base import *
d, info = extract.extract()
W = World(d)
c, which, vp = sys.argv[1], sys.argv[2], tuple(sys.argv[3].split("/")) if sys.argv[3] != "-" else None
opaque = []
if "--opaque" in sys.argv:
    opaque = sys.argv[sys.argv.index("--opaque") + 1].split(",")
A = W.run(c, which, vp, CutPolicy([], opaque=opaque))
print("instances", A.I.fn_instances, "visits", A.I.block_visits, "unhandled", A.I.unhandled, "warn", A.I.warnings[:5])
W2 = 900
for e in A.events:
    if e.kind == "call" and e.extra.get("write"):
        print("WRITE", e.extra.get("item"), e.extra.get("sop"), where(e))
        print("    key  =", show(e.extra.get("key", EMPTY))[:W2])
        print("    value=", show(e.extra.get("value", EMPTY))[:3000])
    elif e.kind == "agg" and OUTFLOW_AGG.search(e.name) and "CosmosMsg" not in e.name:
        print("MSG", e.name, where(e))
        for f, v in zip(e.extra["fields"], e.vals):
            print("    %s = %s" % (f, show(A.d(v))[:W2]))
    elif e.kind == "call" and OUTFLOW_CALL.search(e.name):
        print("CALL", e.name, where(e))
        for i, v in enumerate(e.extra["dargs"]):
            print("    arg%d = %s" % (i, show(v)[:W2]))
if "--ret" in sys.argv:
    print("RET", show(A.ret)[:6000])
if "--calls" in sys.argv:
    pat = sys.argv[sys.argv.index("--calls") + 1]
    for e in A.calls(pat):
        print("CALL", e.name, where(e))
        for i, v in enumerate(e.extra["dargs"]):
            print("    arg%d = %s" % (i, show(v)[:W2]))
        print("    ret =", show(e.extra.get("ret") or EMPTY)[:W2])
if "--switches" in sys.argv:
    for e in A.switches():
        print("SW", e.fn.split("::",1)[1], e.bb, e.span.rsplit("/",1)[-1], show(e.vals[0])[:300], "allowed=", e.extra.get("allowed"))
