#!/bin/bash
# usage: confirm_mutants.sh <worktree> <mutdir>...   (each mutdir has patch.diff + demo.diff)
# Confirms: patch alone keeps the suite green (158), patch+demo fails only in new tests, demo alone passes.
W=$1; shift
OUT=${OUT:-/tmp/mut-out}
LOG=$OUT/CONFIRM.log
export CARGO_NET_OFFLINE=true
run() { (cd $W && cargo nextest run --workspace --no-fail-fast --offline 2>&1 | tee $OUT/last_nextest.log | grep -E "^\s+Summary|^\s+(FAIL|SIGABRT|SIGSEGV)\b" | sort -u); }
for M in "$@"; do
  name=$(echo $M | sed "s|$OUT/||; s|/|-|g")
  (cd $W && git checkout -q -- . && git clean -fdq -e target)
  if ! (cd $W && git apply $M/patch.diff); then echo "$name APPLY-PATCH-FAILED" >> $LOG; continue; fi
  r1=$(run)
  if ! (cd $W && git apply $M/demo.diff); then echo "$name APPLY-DEMO-FAILED" >> $LOG; continue; fi
  r2=$(run)
  (cd $W && git apply -R $M/patch.diff)
  r3=$(run)
  s1=$(echo "$r1" | grep Summary); s2=$(echo "$r2" | grep Summary); s3=$(echo "$r3" | grep Summary)
  f2=$(echo "$r2" | grep -E "FAIL" | sed 's/.*\] *//' | sort -u | tr '\n' ';')
  ok=NO
  if echo "$s1" | grep -q "158 passed" && ! echo "$s1" | grep -q "failed" && echo "$s2" | grep -q "failed" && ! echo "$s3" | grep -q "failed"; then ok=YES; fi
  echo "$name CONFIRMED=$ok | patch-only: $s1 | patch+demo: $s2 [$f2] | demo-only: $s3" >> $LOG
  (cd $W && git checkout -q -- . && git clean -fdq -e target)
done
echo "DONE $(date)" >> $LOG
