#!/usr/bin/env python3
"""Name-dependence stress test: export HEAD of /repo to a scratch dir, rename every free helper function (and the named
constants) of the four contracts by appending a suffix, and run all checks on the renamed tree (MDX_REPO).  Any alarm is a
dependence of a rule on an internal name.  usage: tools/renametest.py [--ids C01,..] [--keep]"""
import json, os, re, subprocess, sys, tempfile, shutil, glob
VERIF = os.path.dirname(os.path.dirname(os.path.abspath(__file__)))
ids = None
if "--ids" in sys.argv:
    ids = sys.argv[sys.argv.index("--ids") + 1].split(",")
man = json.load(open(os.path.join(VERIF, "MANIFEST.json")))
ids = ids or [c["property_id"] for c in man["checks"]]
ENTRY = {"instantiate", "execute", "query", "reply", "migrate", "main"}
tmp = tempfile.mkdtemp(prefix="mdx-ren-")
try:
    ar = subprocess.Popen(["git", "-C", "/repo", "archive", "HEAD"], stdout=subprocess.PIPE)
    subprocess.run(["tar", "-x", "-C", tmp], stdin=ar.stdout, check=True)
    files = [f for f in glob.glob(os.path.join(tmp, "contracts", "*", "src", "**", "*.rs"), recursive=True)]
    names = set()
    consts = set()
    for f in files:
        if "/tests/" in f or f.endswith("tests.rs"):
            continue
        depth_impl = False
        for line in open(f):
            m = re.match(r"^(pub(\([a-z]+\))? )?fn ([a-z_0-9]+)\s*[<(]", line)     # column-0 `fn`: free function
            if m and m.group(3) not in ENTRY and (("_" in m.group(3) and len(m.group(3)) > 7) or ("--all" in sys.argv and len(m.group(3)) > 3)):
                names.add(m.group(3))
            m = re.match(r"^(pub(\([a-z]+\))? )?const ([A-Z_0-9]+)\s*:", line)
            if m and (("_" in m.group(3) and len(m.group(3)) > 7) or ("--all" in sys.argv and len(m.group(3)) > 3)):
                consts.add(m.group(3))
    # do not touch names that also exist in the std package API used by the contracts
    std_src = subprocess.run("grep -rhoE '\\b(%s)\\b' /root/.cargo/registry/src/*/mantra-dex-std-3.1.0/src /root/.cargo/registry/src/*/mantra-utils-1.1.1/src 2>/dev/null | sort -u" % "|".join(sorted(names | consts)),
                             shell=True, capture_output=True, text=True).stdout.split()
    mods = {os.path.splitext(os.path.basename(f))[0] for f in glob.glob(os.path.join(tmp, "contracts", "**", "*.rs"), recursive=True)}
    mods |= {os.path.basename(os.path.dirname(f)) for f in glob.glob(os.path.join(tmp, "contracts", "**", "*.rs"), recursive=True)}
    names -= mods
    names -= set(std_src)
    consts -= set(std_src)
    pat = re.compile(r"\b(%s)\b" % "|".join(sorted(names | consts, key=len, reverse=True)))
    for f in glob.glob(os.path.join(tmp, "contracts", "**", "*.rs"), recursive=True):
        s = open(f).read()
        s2 = pat.sub(lambda m: m.group(1) + ("_rn" if m.group(1) in names else "_RN"), s)
        if s2 != s:
            open(f, "w").write(s2)
    print("renamed %d functions, %d constants in %s" % (len(names), len(consts), tmp))
    env = dict(os.environ, MDX_REPO=tmp)
    r = subprocess.run("cargo check --offline --lib -p pool-manager -p farm-manager -p epoch-manager -p fee-collector 2>&1 | grep -E '^error' -A6 | head -30",
                       shell=True, cwd=tmp, capture_output=True, text=True, env=dict(os.environ, CARGO_TARGET_DIR="/tmp/ren-target", CARGO_NET_OFFLINE="true"))
    if r.stdout.strip():
        print("renamed tree does not compile:\n" + r.stdout)
        sys.exit(3)
    bad = 0
    for i in ids:
        rr = subprocess.run([os.path.join(VERIF, "check"), i], capture_output=True, text=True, env=env)
        if rr.returncode != 0:
            bad += 1
            print("%s ALARM (rc %d)" % (i, rr.returncode))
            for l in [l.strip() for l in rr.stdout.splitlines() if l.strip().startswith("FAIL") or "ERROR" in l][:6]:
                print("      " + l[:330])
        else:
            print("%s quiet" % i)
    print("name-dependent checks: %d" % bad)
finally:
    if "--keep" not in sys.argv:
        shutil.rmtree(tmp, ignore_errors=True)
