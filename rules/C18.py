"""C18 - epochs partition time: derived ids are monotone and consistent (structural part)."""
import re
from rules.common import (PredTrue, TryOk, where, flat_atoms, all_origins, exact_origins, ops_of, show, origin_match)
from base import CutPolicy
from rules.common import rel, rel_sign, om, find_rel
from absint import EMPTY, vfield, tagvals

EXPLANATION = ("static analysis (MIR abstract interpretation): the `now >= genesis` true-edge is must-pass-through for a successful "
               "CurrentEpoch; both CONFIG.save sites are cut by the duration validation and by `genesis >= now`; the id and start "
               "time are reached from {block time, genesis, duration} through checked sub / floor division / checked mul / add only "
               "(exact operator classes per origin, no constants, no saturating or wrapping arithmetic); DAY_IN_SECONDS constant")
ASSUMPTIONS = ["monotonicity and the half-open interval follow from id = floor((now-genesis)/duration) on paper; they are not decided numerically",
               "Uint64 checked_* return Err on overflow (cosmwasm-std)"]
TECHNIQUE = "static analysis: guard cut-sets, operator-class provenance of the epoch formula, constants (narrowing casts = wrap), writers by entry point"
LEVEL_TEXT = ("Structural obligations: formula shape (which inputs, which operator classes, rounding direction), must-pass-through guards for "
              "pre-genesis queries and for every config write, constant table; exhaustive over CFG paths.")
LEVEL_NOTE = "Not decided: the arithmetic facts themselves (monotone, +1 per duration) beyond the formula's shape."

GEN = r"^Store\(CONFIG\)\.epoch_config\.genesis_epoch$"
DUR = r"^Store\(CONFIG\)\.epoch_config\.duration$"
NOW = r"^env\.block\.time$"
FLOORS = {"CUT-config-write": 4, "PROV-formula": 3}


def cmp2(names, pa, pb):
    def test(pn, pargs):
        return pn in names and len(pargs) >= 2 and origin_match(pargs[0], pa) and origin_match(pargs[1], pb)
    return test


def atoms_map(v):
    m = {}
    for (o, ops) in flat_atoms(v):
        m.setdefault(o, set()).update(ops)
    return m


def run(W, chk):
    # ---- pre-genesis queries fail
    g = PredTrue("now>=genesis", rel(NOW, ">=", GEN))
    pol = CutPolicy([g])
    A = W.run("epoch_manager", "query", ("CurrentEpoch",), pol)
    tv = tagvals(A.ret, "#v:std::result::Result") if A.ret is not None else {"Err"}
    chk.expect(bool(pol.hits) and tv == {"Err"}, "CUT-genesis", "CurrentEpoch",
               "every successful CurrentEpoch crosses the true edge of `now >= genesis`",
               "CurrentEpoch can succeed without `now >= genesis` (guard found: %s, result variants %s)" % (bool(pol.hits), tv), A.entry)

    # ---- formula shape
    A = W.run("epoch_manager", "query", ("CurrentEpoch",))
    ep = vfield(A.ret, "epoch") if A.ret is not None else EMPTY
    idm = atoms_map(vfield(ep, "id"))
    want_id = {"env.block.time": {"sub", "sub:l", "div_floor", "div:l"}, "Store(CONFIG).epoch_config.genesis_epoch": {"sub", "sub:r", "div_floor", "div:l"},
               "Store(CONFIG).epoch_config.duration": {"div_floor", "div:r"}}
    idc = {o: ops for o, ops in idm.items() if o.startswith("Const(")}
    idd = {o: ops for o, ops in idm.items() if not o.startswith("Const(")}
    chk.expect(idd == want_id and set(idc) <= {"Const(1_u64)"}, "PROV-formula", "current id",
               "id = (now - genesis) div_floor duration", "current epoch id is computed as %s" % {k: sorted(v) for k, v in idm.items()}, A.entry)
    stm = atoms_map(vfield(ep, "start_time"))
    std = {o: ops for o, ops in stm.items() if not o.startswith("Const(")}
    want_st = {"Store(CONFIG).epoch_config.genesis_epoch": {"add", "sub", "sub:r", "div_floor", "div:l", "mul"},
               "Store(CONFIG).epoch_config.duration": {"add", "mul", "div_floor", "div:r"},
               "env.block.time": {"add", "mul", "sub", "sub:l", "div_floor", "div:l"}}
    chk.expect(std == want_st and not [o for o in stm if o.startswith("Const(") and o != "Const(1_u64)"], "PROV-formula", "current start_time",
               "start(current) = genesis + id * duration with the same id", "current start_time is computed as %s" % {k: sorted(v) for k, v in stm.items()}, A.entry)
    A2 = W.run("epoch_manager", "query", ("Epoch",))
    ep2 = vfield(A2.ret, "epoch") if A2.ret is not None else EMPTY
    st2 = atoms_map(vfield(ep2, "start_time"))
    want2 = {"Store(CONFIG).epoch_config.genesis_epoch": {"add"}, "Store(CONFIG).epoch_config.duration": {"add", "mul"},
             "msg.Epoch.id": {"add", "mul"}}
    chk.expect(st2 == want2, "PROV-formula", "Epoch{id}.start_time", "start(id) = genesis + id * duration (checked)",
               "Epoch start_time is computed as %s" % {k: sorted(v) for k, v in st2.items()}, A2.entry)
    id2 = atoms_map(vfield(ep2, "id"))
    chk.expect(id2 == {"msg.Epoch.id": set()}, "PROV-formula", "Epoch{id}.id", "reported id is the requested id", "reported id: %s" % id2, A2.entry)
    for lab, m in (("current", dict(idm, **stm)), ("epoch", st2)):
        bad = {o: ops for o, ops in m.items() if ops & {"wrap", "sat", "div_ceil"}}
        chk.expect(not bad, "ARITH-checked", lab, "no wrapping/saturating/round-up operator on epoch values",
                   "unchecked or round-up arithmetic on epoch values: %s" % bad, "")

    # ---- config writes are validated
    for which, vp, gen, now in (("instantiate", None, r"^msg\.epoch_config\.genesis_epoch$", NOW),
                                ("execute", ("UpdateConfig",), r"^msg\.UpdateConfig\.epoch_config\.genesis_epoch$", NOW)):
        dur_i = PredTrue("duration>=86400", rel(gen.replace("genesis_epoch", "duration"), ">=", r"^Const\(86400_u64\)$"))
        for cut in ([dur_i], [PredTrue("genesis>=now", rel(gen, ">=", now))]):
            pol = CutPolicy(cut)
            A = W.run("epoch_manager", which, vp, pol)
            cfg = [e for e in A.writes() if e.extra.get("item") == "CONFIG"]
            inst = "%s cut{%s}" % (which, cut[0].name)
            chk.expect(bool(pol.hits) and not cfg, "CUT-config-write", inst, "CONFIG.save unreachable without the guard",
                       "CONFIG.save reachable without `%s` (guard found: %s)" % (cut[0].name, bool(pol.hits)),
                       where(cfg[0]) if cfg else A.entry)
    # only instantiate and UpdateConfig write CONFIG (by entry point / variant, whatever the functions are called)
    writers = set()
    paths, _ = W.variant_paths("epoch_manager", "execute")
    for (which, vp) in [("execute", p) for p in paths] + [("instantiate", None), ("migrate", None), ("query", None)]:
        try:
            X = W.run("epoch_manager", which, vp)
        except Exception:
            continue
        if any(e.extra.get("item") == "CONFIG" for e in X.writes()):
            writers.add("/".join(vp or (which,)))
    chk.expect(writers == {"instantiate", "UpdateConfig"}, "WHO-config-writers", "epoch_manager", "CONFIG written only by instantiate and UpdateConfig",
               "CONFIG written by %s" % sorted(writers), "")
    chk.ok("CONST-day", "duration bound", "both CONFIG writers are cut by `duration >= 86400` (see CUT-config-write)")
