"""C16 - pool creation charges exact fees; pool parameters are unique and immutable."""
import re
from rules.common import DataIs
from rules.common import (PredTrue, PredFalse, TryOk, CallTrue, VariantEdge, EQ, no_effects, where, exact_origins,
                          all_origins, flat_atoms, overrides, may_tags, pool_writes, field_val, show, ops_of,
                          pred_test, eq_test, origin_match)
from base import CutPolicy
from rules.common import rel, rel_sign, om, find_rel
from absint import EMPTY, const_of, vfield

EXPLANATION = ("static analysis (MIR abstract interpretation): each creation precondition individually cuts every path to the creating "
               "POOLS.save; the only Send is the exact creation fee to the exact fee collector; the extra-funds helper's decision "
               "depends on every fund coin's denom and amount; outside creation every value saved to POOLS comes from POOLS under "
               "the same key with only reserve amounts / status overridden and no permuting operation applied to the index-coupled "
               "vectors; POOLS.remove is never called; identifier prefixes and the LP denom derivation are constant-checked")
ASSUMPTIONS = ["token-factory denom creation fee semantics and bank deltas are the chain's", "PoolFee::is_valid internals are trusted in the quick tier"]
TECHNIQUE = "static analysis: guard cut-sets, provenance of saved PoolInfo fields (immutability), permutation taint on coupled vectors, constants, value-assumption cut (same-denom fee), guards recognised by the comparison they make"
LEVEL_TEXT = ("Structural obligations over all paths: creation guards are must-pass-through for the creating save; later writes of a pool "
              "may only change reserve amounts and status and never permute/resize assets against asset_denoms/asset_decimals; a pool is "
              "never removed.")
LEVEL_NOTE = "Not decided: numeric bank deltas; token-factory fee semantics; fee validity thresholds (inside mantra_dex_std)."

DEN = r"^msg\.CreatePool\.asset_denoms"
DEC = r"^msg\.CreatePool\.asset_decimals"


def cmp_test(names, pa, pb):
    def test(pname, pargs):
        if pname not in names or len(pargs) < 2:
            return False
        a, b = pargs[0], pargs[1]
        return (origin_match(a, pa) and origin_match(b, pb))
    return test


ASSUME_CP = VariantEdge("assume ConstantProduct", r"^msg\.CreatePool\.pool_type$", ["StableSwap"])
ASSUME_SS = VariantEdge("assume StableSwap", r"^msg\.CreatePool\.pool_type$", ["ConstantProduct"])

CREATE_GUARDS = [
    ("count>=2", [PredTrue("len(denoms)>=MIN", rel(DEN, ">=", r"^Const\(2_usize\)$"))], ()),
    ("count==decimals", [PredTrue("len(denoms)==len(decimals)", eq_test(DEN, DEC))], ()),
    ("cp=>2", [PredTrue("len(denoms)==2", eq_test(DEN, r"^Const\(2_usize\)$"))], (ASSUME_CP,)),
    ("amp!=0", [PredFalse("amp!=0", eq_test(r"^msg\.CreatePool\.pool_type\.StableSwap\.amp$", r"^Const\(0_u64\)$")),
                DataIs("amp is the literal 0", r"^msg\.CreatePool\.pool_type\.StableSwap\.amp$", "0")], (ASSUME_SS,)),      # `amp == 0` / pattern `amp: 0`
    ("count<=MAX", [PredTrue("len(denoms)<=MAX", rel(DEN, "<=", r"^Const\(4_usize\)$"))], ()),
    ("fees valid", [TryOk(r"mantra_dex_std::fee::.*::is_valid$")], ()),
    ("identifier unused", [PredFalse("pool exists", lambda pn, pa: pn == "is_ok" and origin_match(pa[0], r"^Store\(POOLS\)")),
                           VariantEdge("pool lookup fails", r"^Store\(POOLS\)", ["Err", "None"])], ()),     # is_ok() / is_err() / matches!(.., Ok(_)) / match
    ("lp denom is factory token", [CallTrue(r"mantra_dex_std::coin::is_factory_token$")], ()),
]


def _funds(v):
    o = all_origins(v)
    return bool(o) and all(x.startswith("info.funds") or x.startswith("Const(") for x in o) and any(x.startswith("info.funds") for x in o)


def _fee_amount(v):
    return any(x.startswith("Store(CONFIG).pool_creation_fee") or "denom_creation_fee" in x for x in all_origins(v))


def _paid_eq_fee(pn, pa):
    return pn in ("eq", "ne") and len(pa) > 1 and ((_funds(pa[0]) and _fee_amount(pa[1])) or (_funds(pa[1]) and _fee_amount(pa[0])))


def _fund_vs_fee_denom(pn, pa):
    """a fund coin's denom compared with an expected fee's denom (the extra-funds decision)"""
    if pn not in ("eq", "ne") or len(pa) < 2:
        return False
    a, b = all_origins(pa[0]), all_origins(pa[1])
    f = lambda s: bool(s) and all(x == "info.funds[*].denom" for x in s)   # noqa: E731
    g = lambda s: any("denom_creation_fee" in x or x.startswith("Store(CONFIG).pool_creation_fee") for x in s)   # noqa: E731
    return (f(a) and g(b)) or (f(b) and g(a))


def _single_fund_amount(pn, pa):
    """an individual fund coin's amount (exact, not a paid sum) compared with an expected amount: the extra-funds decision"""
    if pn == "contains" and len(pa) > 1:      # `expected_fees.contains(fund_coin)`: a whole fund coin looked up among the expected fees
        coin_ = lambda v: exact_origins(v) == {"info.funds[*]"}   # noqa: E731
        return coin_(pa[0]) or coin_(pa[1])
    if pn not in ("eq", "ne") or len(pa) < 2:
        return False
    one = lambda v: (exact_origins(v) == {"info.funds[*].amount"} and all_origins(v) == {"info.funds[*].amount"}) or \
        (exact_origins(v) == {"info.funds[*]"} and all_origins(v) == {"info.funds[*]"})   # noqa: E731      (`fee == fund`: whole coins compared)
    return one(pa[0]) or one(pa[1])


def _identifier_len(pn, pa):
    return pn in ("lt", "le", "gt", "ge") and len(pa) > 1 and any(
        any(o == "msg.CreatePool.pool_identifier" and "len" in ops for (o, ops) in flat_atoms(x)) for x in pa[:2])


FLOORS = {"CUT-create": 12, "WHO-field-writes": 4, "ORDER-coupled-vectors": 4}
ALLOWED_OVERRIDE = [r"^assets$", r"^assets\.\[\*\]$", r"^assets\.\[\*\]\.amount$", r"^status(\.\w+)?$"]


def run(W, chk):
    from rules.common import borrow
    borrow(W, chk, "C01", {"PROV-withdraw-same-vector"}, "a withdrawal changes reserve amounts only, by denom: the stored asset list is never truncated or re-aligned")
    # ---- creation guards: each alone cuts the creating save
    for (name, cuts, extra) in CREATE_GUARDS:
        no_effects(chk, W, "CUT-create", "pool_manager", ("CreatePool",), cuts, " [%s]" % name, effects=pool_writes, extra=extra)

    # guards recognised by what they compare (any spelling, any helper name; the named helper is only the first candidate)
    from rules.common import cut_by_any, decision
    from rules.common import helper_candidates
    A0 = W.run("pool_manager", "execute", ("CreatePool",))
    cut_by_any(chk, W, "CUT-create", "pool_manager", ("CreatePool",), "fees paid",
               decision("paid == required fee", _paid_eq_fee) + helper_candidates(A0, _paid_eq_fee, "pool_manager::"), effects=pool_writes)
    cut_by_any(chk, W, "CUT-create", "pool_manager", ("CreatePool",), "no extra funds",
               decision("every fund coin is an expected fee", _single_fund_amount) + helper_candidates(A0, _single_fund_amount, "pool_manager::"), effects=pool_writes)
    cut_by_any(chk, W, "CUT-create", "pool_manager", ("CreatePool",), "identifier valid",
               decision("identifier length bound", _identifier_len) + helper_candidates(A0, _identifier_len, "pool_manager::"), effects=pool_writes)
    # ---- same-denom case: when a token-factory fee is charged in the creation fee's denom, the amount demanded in that denom is the
    # sum of both - never the creation fee alone (whatever the configured amounts are, zero included)
    from rules.common import pred_tree_has

    def _same_denom(pn, pa):
        if pn not in ("eq", "ne") or len(pa) < 2:
            return False
        a, b = all_origins(pa[0]), all_origins(pa[1])
        tf = lambda s: any("denom_creation_fee" in x and x.endswith(".denom") for x in s)   # noqa: E731
        cf = lambda s: s == {"Store(CONFIG).pool_creation_fee.denom"}   # noqa: E731
        return (tf(a) and cf(b)) or (tf(b) and cf(a))
    from base import AssumeReturn
    # the same-denom decision compares denoms and nothing else (comparing whole coins would miss a fee of another amount in that denom)
    whole = []
    for e in A0.events:
        if e.kind in ("switch", "invoke") and e.vals:
            def _coin_cmp(pn, pa):
                if pn not in ("eq", "ne") or len(pa) < 2:
                    return False
                a, b = all_origins(pa[0]), all_origins(pa[1])
                tf = lambda s: bool(s) and all("denom_creation_fee" in x for x in s)   # noqa: E731
                cf = lambda s: bool(s) and all(x.startswith("Store(CONFIG).pool_creation_fee") for x in s)   # noqa: E731
                if (tf(a) and cf(b)) or (tf(b) and cf(a)):
                    return not all(x.endswith(".denom") or x.endswith(".amount") for x in a | b)
                return False
            if any(pred_tree_has(v, _coin_cmp) for v in e.vals):
                whole.append(e)
    chk.expect(not whole, "ACUT-same-denom-fee", "denoms only", "token-factory fees are matched to the creation fee by denom",
               "a token-factory fee coin is compared with the creation fee coin as a whole (denom and amount): a fee of another amount in the same denom is not recognised",
               where(whole[0]) if whole else "")
    assume = AssumeReturn("assume a token-factory fee in the creation fee's denom", lambda pn, pa: pn == "any" and pred_tree_has(pa[0], _same_denom))
    pol = CutPolicy([], assume=[assume])
    S = W.run("pool_manager", "execute", ("CreatePool",), pol)
    cmps = []
    for e in S.switches():
        for a in e.vals[0].atoms:
            if isinstance(a[0], tuple) and a[0][0] == "pred" and a[0][1] in ("eq", "ne") and len(a[0]) > 3 and _paid_eq_fee(a[0][1], a[0][2:]):
                exp = a[0][3] if _funds(a[0][2]) else a[0][2]
                m = {}
                for (o, ops) in flat_atoms(exp):
                    m.setdefault(o, []).append(ops)
                if "Store(CONFIG).pool_creation_fee.amount" in m:
                    cmps.append((e, m))
    if not pol.hits or not cmps:
        chk.skip("ACUT-same-denom-fee", "CreatePool", "no `any(token-factory fee denom == creation fee denom)` decision / creation-fee comparison found in this shape")
        cmps = []
    for (e, m) in cmps[:1]:
        bare = any("add" not in ops for ops in m["Store(CONFIG).pool_creation_fee.amount"])
        tfa = any("denom_creation_fee" in o for o in m)
        chk.expect(tfa and not bare, "ACUT-same-denom-fee", "CreatePool", "with a shared denom the demanded amount is creation fee + token-factory fee",
                   "although a token-factory fee is charged in the creation fee's denom, the amount demanded in that denom can be the creation fee alone "
                   "(the token-factory fee is then checked nowhere and is taken from the pools' reserves)", where(e))
    duplicate_guard(W, chk)
    A = W.run("pool_manager", "execute", ("CreatePool",))
    # ---- the only Send is the exact creation fee to the exact fee collector
    sends = A.aggs(r"BankMsg::Send$")
    chk.expect(len(sends) == 1, "PROV-creation-fee", "count", "one BankMsg::Send in CreatePool",
               "%d BankMsg::Send constructors in CreatePool" % len(sends), A.entry)
    for e in sends:
        to = exact_origins(A.d(field_val(e, "to_address")))
        amt = A.d(field_val(e, "amount"))
        ao = exact_origins(amt)
        chk.expect(to == {"Store(CONFIG).fee_collector_addr"} and ao == {"Store(CONFIG).pool_creation_fee"} and not ops_of(amt),
                   "PROV-creation-fee", "send", "Send(exact fee_collector_addr, exact pool_creation_fee)",
                   "creation fee message is Send(to=%s, amount=%s)" % (sorted(all_origins(A.d(field_val(e, "to_address")))),
                                                                        sorted(all_origins(amt))), where(e))
    burns = A.aggs(r"BankMsg::Burn$")
    chk.expect(not burns, "PROV-creation-fee", "no-burn", "no Burn in CreatePool", "CreatePool burns funds", where(burns[0]) if burns else "")

    # ---- the extra-funds helper decides on every fund coin's denom and amount (required dependence)
    fid = "pool_manager::helpers::validate_no_additional_funds_sent_with_pool_creation"
    if not (W.has_fn(fid) and W.has_fn("pool_manager::helpers::validate_fees_are_paid")):
        chk.skip("DEP-extra-funds", "named helpers", "helpers not found under these names; the entry-level CUT-create guards above decide the clause")
    else:
      try:
          H = W.run_fn(fid)
          dep = set()
          for e in H.switches():
              dep |= {o for (o, ops) in H.I.flat(H.store, e.vals[0])}
          need = {"info.funds[*].denom", "info.funds[*].amount", "total_fees[*].denom", "total_fees[*].amount"}
          b_ = W.F.get(fid)
          pn_ = {b_.varname.get(i, "") for i in range(1, b_.argc + 1)}
          if not {"info", "total_fees"} <= pn_:
              chk.skip("DEP-extra-funds", "named helpers", "helper signatures changed (%s); the entry-level CUT-create guards decide the clause" % sorted(pn_))
              raise StopIteration
          # a whole coin compared (`fee == fund`), or looked up in the whole list (`total_fees.contains(fund)`), covers both fields
          dep |= {o + f for o in dep & {"info.funds[*]", "total_fees[*]"} for f in (".denom", ".amount")}
          dep |= {o + "[*]" + f for o in dep & {"info.funds", "total_fees"} for f in (".denom", ".amount")}
          chk.expect(need <= dep, "DEP-extra-funds", "validate_no_additional_funds_sent_with_pool_creation",
                     "accept/reject depends on each fund coin's denom and amount and on each expected fee's denom and amount",
                     "the extra-funds decision does not depend on %s (it cannot reject a surplus coin it never looks at)" % sorted(need - dep),
                     W.F.get(fid).span)
          fid2 = "pool_manager::helpers::validate_fees_are_paid"
          H = W.run_fn(fid2)
          eqs = []
          for e in H.switches():
              for a in e.vals[0].atoms:
                  if isinstance(a[0], tuple) and a[0][0] == "pred" and a[0][1] in ("eq", "ne"):
                      l = {o for (o, ops) in H.I.flat(H.store, a[0][2])}
                      r = {o for (o, ops) in H.I.flat(H.store, a[0][3])}
                      eqs.append((l, r))
          paid_vs_fee = [1 for (l, r) in eqs if any(o.startswith("info.funds") for o in l | r) and
                         any(o.startswith("pool_creation_fee.amount") or o.startswith("denom_creation_fee") for o in l | r)]
          chk.expect(len(paid_vs_fee) >= 2, "DEP-fees-paid", "validate_fees_are_paid",
                     "paid amounts are compared for equality with the creation fee and with each token-factory fee",
                     "equality comparisons of paid funds with the expected fees not found (%d)" % len(paid_vs_fee), W.F.get(fid2).span)
      except StopIteration:
          pass
      except KeyError as ex:
          chk.fail("DEP-extra-funds", "anchor", "helper not found: %s" % ex, "")

    # ---- uniqueness: counter, prefixes, lp denom
    for e in A.writes():
        if e.extra.get("item") == "POOL_COUNTER":
            v = e.extra.get("value", EMPTY)
            o = {(oo, tuple(sorted(ops))) for (oo, ops) in flat_atoms(v)}
            chk.expect(o == {("Store(POOL_COUNTER)", ("add",)), ("Const(1_u64)", ("add",))}, "PROV-counter", "POOL_COUNTER",
                       "POOL_COUNTER <- POOL_COUNTER + 1", "POOL_COUNTER is updated with %s" % sorted(o), where(e))
    consts = {c: W.F.const_literal("pool_manager::manager::commands::" + c) for c in
              ("EXPLICIT_POOL_ID_PREFIX", "AUTO_POOL_ID_PREFIX", "MAX_ASSETS_PER_POOL", "MIN_ASSETS_PER_POOL")}
    ex, au = consts["EXPLICIT_POOL_ID_PREFIX"], consts["AUTO_POOL_ID_PREFIX"]
    if ex is None or au is None:
        chk.skip("CONST-id-prefixes", "o./p.", "prefix constants not found under these names (renamed / inlined)")
    else:
        good = ex != au and not ex.strip('"').startswith(au.strip('"')) \
            and not au.strip('"').startswith(ex.strip('"')) and len(ex.strip('"')) > 0 and len(au.strip('"')) > 0
        chk.expect(good, "CONST-id-prefixes", "o./p.", "explicit %s and generated %s prefixes differ and neither prefixes the other" % (ex, au),
                   "identifier prefixes %s / %s can collide" % (ex, au), "pool_manager::manager::commands")
    if consts["MAX_ASSETS_PER_POOL"] is None or consts["MIN_ASSETS_PER_POOL"] is None:
        chk.skip("CONST-asset-count", "MIN/MAX", "bounds not declared under these names; the count guards above compare with the literals 2 and 4")
    else:
        chk.expect(consts["MAX_ASSETS_PER_POOL"] == "4_usize" and consts["MIN_ASSETS_PER_POOL"] == "2_usize", "CONST-asset-count", "MIN/MAX",
                   "MIN=2 MAX=4", "asset count bounds are %s..%s" % (consts["MIN_ASSETS_PER_POOL"], consts["MAX_ASSETS_PER_POOL"]), "")
    for e in pool_writes(A):
        v = e.extra.get("value", EMPTY)
        lp = all_origins(vfield(v, "lp_denom"))
        allowed = {"env.contract.address", "msg.CreatePool.pool_identifier", "Store(POOL_COUNTER)"}
        chk.expect(lp and {o for o in lp if not o.startswith("Const(")} <= allowed and "env.contract.address" in lp,
                   "PROV-lp-denom", "CreatePool", "lp_denom derives from contract address + identifier only",
                   "lp_denom derives from %s" % sorted(lp), where(e))
        pid = all_origins(vfield(v, "pool_identifier"))
        key = all_origins(e.extra.get("key", EMPTY))
        chk.expect(pid == key and pid, "KEY-create", "CreatePool", "stored under its own identifier", "key %s vs identifier %s" % (sorted(key), sorted(pid)), where(e))
        for f, src in (("asset_denoms", "msg.CreatePool.asset_denoms"), ("asset_decimals", "msg.CreatePool.asset_decimals"),
                       ("pool_fees", "msg.CreatePool.pool_fees")):
            fo = vfield(v, f)
            chk.expect(exact_origins(fo) == {src} and not ops_of(fo) and not may_tags(fo, "perm"), "PROV-create-fields", f,
                       "%s stored exactly as requested" % f, "%s stored from %s" % (f, sorted(all_origins(fo))), where(e))
        den = all_origins(vget_path(v, ("assets", "[*]", "denom")))
        chk.expect(den == {"msg.CreatePool.asset_denoms[*]"}, "PROV-create-fields", "assets[*].denom",
                   "assets built from asset_denoms in order", "assets denoms from %s" % sorted(den), where(e))

    # ---- immutability after creation
    paths, _ = W.variant_paths("pool_manager", "execute")
    entries = [("execute", vp) for vp in paths if vp != ("CreatePool",)] + [("reply", None)]
    n_upd = 0
    for (which, vp) in entries:
        A = W.run("pool_manager", which, vp)
        lab = "/".join(vp or (which,))
        for e in pool_writes(A):
            n_upd += 1
            sop = e.extra.get("sop")
            if sop not in ("save", "update"):
                chk.fail("WHO-pool-never-removed", lab, "POOLS.%s is called: a pool must never be removed/replaced" % sop, where(e))
                continue
            v = e.extra.get("value", EMPTY)
            base = {o for (o, ops) in v.atoms}
            ok_base = base == {"Store(POOLS)"}
            ov = overrides(v, "Store(POOLS)")
            bad = [(".".join(p), f) for (p, f) in ov if not any(re.search(a, ".".join(p)) for a in ALLOWED_OVERRIDE)]
            chk.expect(ok_base and not bad, "WHO-field-writes", lab,
                       "saved pool = loaded pool with overrides %s" % sorted({".".join(p) for p, f in ov}),
                       "pool saved with base %s and immutable fields overridden: %s" % (sorted(base), [b[0] for b in bad]), where(e))
            perm = may_tags(v, "perm")
            chk.expect(not perm, "ORDER-coupled-vectors", lab,
                       "no permuting/resizing operation reaches the stored assets vector",
                       "assets (index-coupled with asset_denoms/asset_decimals) may be permuted/resized by %s before being stored" %
                       sorted(perm), where(e))
            key = all_origins(e.extra.get("key", EMPTY))
            lk = set()
            for r in A.reads():
                if r.extra.get("item") == "POOLS":
                    lk |= all_origins(r.extra.get("key", EMPTY))
            chk.expect(bool(key) and (key <= lk or key == {"Store(POOLS).pool_identifier"}), "KEY-update-same-pool", lab,
                       "saved under the key it was loaded from", "pool loaded with %s but saved under %s" % (sorted(lk), sorted(key)), where(e))
    chk.expect(n_upd >= 4, "WHO-field-writes", "anchor-count", "%d POOLS update sites analysed" % n_upd,
               "only %d POOLS update sites found (expected perform_swap, provide_liquidity, withdraw_liquidity, update_config)" % n_upd, "")


def has_pairwise_eq(v, depth=0):
    """does the value's computation compare two elements of asset_denoms with each other?"""
    if depth > 8:
        return False
    for a in v.atoms:
        if isinstance(a[0], tuple) and a[0][0] == "pred":
            if a[0][1] in ("eq", "ne") and len(a[0]) > 3 and exact_origins(a[0][2]) == {"msg.CreatePool.asset_denoms[*]"} \
                    and exact_origins(a[0][3]) == {"msg.CreatePool.asset_denoms[*]"}:
                return True
            if a[0][1] == "contains" and len(a[0]) > 3 and all(exact_origins(x) and exact_origins(x) <= {"msg.CreatePool.asset_denoms[*]", "msg.CreatePool.asset_denoms"}
                                                                for x in a[0][2:4]):
                return True       # `rest_of_the_list.contains(element)`
            for x in a[0][2:]:
                if hasattr(x, "atoms") and has_pairwise_eq(x, depth + 1):
                    return True
    for k, f in v.fields.items():
        if has_pairwise_eq(f, depth + 1):
            return True
    return False


def duplicate_guard(W, chk):
    """distinct assets: some decision that compares asset_denoms elements pairwise cuts the creating save.
    Accepted spellings: `iter().any(|a| iter().filter(|b| b == a).count() > 1)`, nested loops with a flag,
    or a local helper returning the verdict."""
    A = W.run("pool_manager", "execute", ("CreatePool",))
    pair = any(has_pairwise_eq(e.vals[0]) for e in A.events if e.kind in ("switch", "invoke") and e.vals)
    cands = [PredFalse("any(duplicate denom)", lambda pn, pa: pn == "any" and origin_match(pa[0], DEN, require_all=False)),
             PredTrue("any(duplicate denom)'", lambda pn, pa: pn == "any" and origin_match(pa[0], DEN, require_all=False)),
             PredFalse("rest.contains(denom)", lambda pn, pa: pn == "contains" and len(pa) > 1 and origin_match(pa[0], DEN, require_all=False) and origin_match(pa[1], DEN, require_all=False)),
             PredTrue("rest.contains(denom)'", lambda pn, pa: pn == "contains" and len(pa) > 1 and origin_match(pa[0], DEN, require_all=False) and origin_match(pa[1], DEN, require_all=False))]
    for e in A.calls_id(r"^pool_manager::"):
        rid = e.extra.get("rid") or ""
        sub = [x for x in A.events if x.kind in ("switch", "invoke") and x.vals and any(c == rid for c in x.chain())]
        if e.fn.endswith("create_pool") and any(has_pairwise_eq(x.vals[0]) for x in sub):
            cands += [CallTrue(re.escape(rid) + "$", "helper says duplicate", True), CallTrue(re.escape(rid) + "$", "helper says distinct", False)]
    good = None
    for c in cands:
        pol = CutPolicy([c], nonempty=r"^msg\.CreatePool\.asset_denoms")     # the count >= 2 guard is a separate obligation
        B = W.run("pool_manager", "execute", ("CreatePool",), pol)
        if c.name in pol.hits and not pool_writes(B):
            good = c.name
            break
    chk.expect(pair and good is not None, "CUT-create", "pool_manager/CreatePool [no duplicate denom]",
               "a pairwise comparison of asset_denoms decides, and its rejecting verdict cuts the creating save (%s)" % good,
               "no decision comparing asset_denoms pairwise cuts pool creation (pairwise comparison found: %s, cutting guard: %s): duplicate assets "
               "can be accepted" % (pair, good), A.entry)


def vget_path(v, path):
    for k in path:
        v = vfield(v, k)
    return v
