"""C08 - locked LP returns only to its owner, only after unlocking, and in full."""
import re
from rules.common import (opmap, sends_to, PredTrue, PredFalse, TryOk, CallTrue, EQ, VariantEdge, NONPAYABLE, no_effects, where, flat_atoms,
                          all_origins, exact_origins, ops_of, show, origin_match, eq_test, pred_test, data_test, field_val,
                          effects_signature)
from rules.C15 import POS_OWNER, SENDER_IS_PM, SENDER_IS_RECV, RECV_NONE
from base import CutPolicy, dep_origins
from rules.common import rel, rel_sign, om, find_rel, AnyOf
from absint import EMPTY, vfield, tagvals, const_of

EXPLANATION = ("static analysis (MIR abstract interpretation): owner/delegate guard cut-sets for every position action; the normal "
               "withdrawal is cut by `expiring_at.is_some()` and `is_expired(now)` and pays exactly the stored lp_asset to the stored "
               "receiver, then removes the position; the penalty branch is reachable only through `emergency_unlock == Some(true)` and "
               "`!is_expired`; provenance of every Position field at create / expand / partial close; identifier discipline; "
               "pool-manager side: locking only for the sender, expanding only the sender's own position")
ASSUMPTIONS = ["Position::is_expired = expiring_at.is_some() && expiring_at <= now (mantra_dex_std, checked structurally)",
               "arithmetic at the boundary second beyond the comparison operator is not decided"]
TECHNIQUE = "static analysis: guard cut-sets, provenance of Position fields and payouts, storage write enumeration"
LEVEL_TEXT = ("Structural obligations over all paths of the four position actions and of the pool manager's lock path: who may act, "
              "when a payout is reachable, what exactly is paid and recorded.")
LEVEL_NOTE = "Not decided: numeric boundary arithmetic; interleavings (no guard depends on other users' state)."

P = "msg.ManagePosition.action"
EU = r"^msg\.ManagePosition\.action\.Withdraw\.emergency_unlock$"


def _emergency_true(pn, pa):
    """`emergency_unlock` is Some(true), in any spelling: is_some() && unwrap(), unwrap_or(false), == Some(true)"""
    if pn == "data":
        o = {x for x in all_origins(pa[0])}
        return "msg.ManagePosition.action.Withdraw.emergency_unlock" in o and o <= {"msg.ManagePosition.action.Withdraw.emergency_unlock", "Const(false)"}
    if pn == "eq" and len(pa) > 1:
        a, b = all_origins(pa[0]), all_origins(pa[1])
        e = {"msg.ManagePosition.action.Withdraw.emergency_unlock"}
        return (a == e and b == {"Const(true)"}) or (b == e and a == {"Const(true)"})
    return False


EMERGENCY_FLAG = PredTrue("emergency_unlock==Some(true)", _emergency_true)
EMERGENCY_SOME = PredTrue("emergency_unlock.is_some()", pred_test("is_some", r"^msg\.ManagePosition\.action\.Withdraw\.emergency_unlock$"))
IS_EXPIRED_T = CallTrue(r"::is_expired$", "is_expired(now)", True)
IS_EXPIRED_F = CallTrue(r"::is_expired$", "!is_expired(now)", False)
HAS_EXPIRY = PredTrue("expiring_at.is_some()", pred_test("is_some", r"^Store\(POSITIONS\)\.expiring_at$"))
# the same two eligibility conditions written inline (`match position.expiring_at { None => Err, Some(t) if t > now => Err, .. }`)
EXPIRED_ANY = AnyOf("is_expired(now)", [IS_EXPIRED_T, PredTrue("expiring_at <= now", rel(r"^Store\(POSITIONS\)\.expiring_at", "<=", r"^env\.block\.time", False))])
HAS_EXPIRY_ANY = AnyOf("expiring_at.is_some()", [HAS_EXPIRY, VariantEdge("expiring_at is Some", r"^Store\(POSITIONS\)\.expiring_at$", ["Some"])])
FLOORS = {"CUT-owner": 5, "WHO-positions-writes": 10, "PROV-position-fields": 8}
WRITES = {("ManagePosition", ".action", "Create"): {"save": 1}, ("ManagePosition", ".action", "Expand"): {"save": 1},
          ("ManagePosition", ".action", "Close"): {"save": 2}, ("ManagePosition", ".action", "Withdraw"): {"remove": 1}}


def pos_writes(A):
    return [e for e in A.writes() if e.extra.get("item") == "POSITIONS"]


PENALTY_TO = {"Store(FARMS).owner", "Store(CONFIG).fee_collector_addr"}


def penalty_calls(A):
    """penalty transfers = Sends to an active farm's owner or to the fee collector (however they are built)"""
    return sends_to(A, PENALTY_TO)


def run(W, chk):
    fm = "farm_manager"
    # ---- owner / delegate cuts
    no_effects(chk, W, "CUT-owner", fm, ("ManagePosition", ".action", "Close"), [POS_OWNER], "")
    no_effects(chk, W, "CUT-owner", fm, ("ManagePosition", ".action", "Withdraw"), [POS_OWNER], "")
    no_effects(chk, W, "CUT-owner", fm, ("ManagePosition", ".action", "Expand"), [POS_OWNER, SENDER_IS_PM], "")
    no_effects(chk, W, "CUT-owner", fm, ("ManagePosition", ".action", "Create"), [RECV_NONE, SENDER_IS_PM, SENDER_IS_RECV], "")
    no_effects(chk, W, "CUT-owner", fm, ("ManagePosition", ".action", "Close"), [NONPAYABLE], " [nonpayable]")
    no_effects(chk, W, "CUT-owner", fm, ("ManagePosition", ".action", "Withdraw"), [NONPAYABLE], " [nonpayable]")
    # open check on close / expand
    no_effects(chk, W, "CUT-open", fm, ("ManagePosition", ".action", "Close"), [PredTrue("position.open", data_test(r"^Store\(POSITIONS\)\.open$"))], "")
    no_effects(chk, W, "CUT-open", fm, ("ManagePosition", ".action", "Expand"), [PredTrue("position.open", data_test(r"^Store\(POSITIONS\)\.open$"))], "")

    # ---- WHO writes POSITIONS
    paths, _ = W.variant_paths(fm, "execute")
    for vp in paths:
        A = W.run(fm, "execute", vp)
        sig = {}
        for e in pos_writes(A):
            sig[e.extra.get("sop")] = sig.get(e.extra.get("sop"), 0) + 1
        want = WRITES.get(vp, {})
        chk.expect(sig == want, "WHO-positions-writes", "/".join(vp), "POSITIONS writes: %s" % sig,
                   "POSITIONS is written %s here, expected %s" % (sig, want), A.entry)

    # ---- withdraw: normal path
    wd = ("ManagePosition", ".action", "Withdraw")
    for nm, cuts in (("unlock instant", [EXPIRED_ANY]), ("closed position", [HAS_EXPIRY_ANY])):
        pol = CutPolicy(cuts + [EMERGENCY_FLAG])
        A = W.run(fm, "execute", wd, pol)
        ok = all(c.name in pol.hits for c in cuts + [EMERGENCY_FLAG]) and not A.effects()
        chk.expect(ok, "CUT-unlock", nm, "a non-emergency withdrawal has no effect unless %s holds" % cuts[0].name,
                   "non-emergency withdrawal reaches effects without `%s` (guards found %s): %s" % (cuts[0].name, sorted(pol.hits), effects_signature(A)),
                   where(A.effects()[0]) if A.effects() else A.entry)
    for nm, cuts in (("emergency flag false/absent", [EMERGENCY_FLAG]), ("already expired", [IS_EXPIRED_F])):
        pol = CutPolicy(cuts)
        A = W.run(fm, "execute", wd, pol)
        pc = penalty_calls(A)
        sends = [e for e in A.aggs(r"BankMsg::Send$") if e not in pc]
        good = bool(pol.hits) and not pc and len(sends) == 1
        detail = ""
        if sends and not pc:
            e = sends[0]
            to = A.d(field_val(e, "to_address"))
            am = A.d(vfield(field_val(e, "amount"), "[*]"))
            amt_ok = exact_origins(am) >= {"Store(POSITIONS).lp_asset"} and not ops_of(am) and \
                {o for o in all_origins(am) if not o.startswith("Const(")} == {"Store(POSITIONS).lp_asset"}
            good = good and exact_origins(to) == {"Store(POSITIONS).receiver"} and amt_ok
            detail = "Send(to=%s, amount=%s ops %s)" % (sorted(all_origins(to)), sorted(all_origins(am)), sorted(ops_of(am)))
        rem = [e for e in pos_writes(A) if e.extra.get("sop") == "remove"]
        keyok = rem and all_origins(rem[0].extra.get("key", EMPTY)) == {P + ".Withdraw.identifier"}
        chk.expect(good and keyok, "PROV-full-payout", nm,
                   "no penalty message; the only Send pays exactly the stored lp_asset to the stored receiver; the position is removed",
                   "without the emergency conditions (%s): penalty msgs %d, sends %d %s, remove-key ok %s, guard found %s" %
                   (nm, len(pc), len(sends), detail, bool(keyok), bool(pol.hits)), where((pc or sends or [None])[0]) if (pc or sends) else A.entry)
    # the position is looked up under the very key it is removed under (a lookup that also tries another spelling of the identifier
    # would pay out a position that the removal then misses)
    A = W.run(fm, "execute", wd)
    rem = [e for e in pos_writes(A) if e.extra.get("sop") == "remove"]
    rd = [e for e in A.reads() if e.extra.get("item") == "POSITIONS" and e.extra.get("sop") in ("load", "may_load")]
    if rem and rd:
        rk = opmap(rem[0].extra.get("key", EMPTY))
        own = {"Store(POSITIONS).identifier": frozenset()}
        bad = [e for e in rd if opmap(e.extra.get("key", EMPTY)) not in (rk, own)]
        chk.expect(not bad, "KEY-withdraw-same", "Withdraw", "every lookup of the position uses the key it is removed under",
                   "the position is looked up under %s but removed under %s" % ([{k: sorted(v) for k, v in opmap(e.extra.get("key", EMPTY)).items()} for e in bad][:2],
                                                                                 {k: sorted(v) for k, v in rk.items()}), where(bad[0]) if bad else "")
    # remove on every success path
    A = W.run(fm, "execute", wd)
    chk.expect(len([e for e in pos_writes(A) if e.extra.get("sop") == "remove"]) == 1, "PAIR-withdraw-remove", "Withdraw",
               "POSITIONS.remove(identifier) on the success path", "POSITIONS.remove missing in Withdraw", A.entry)

    # ---- Position::is_expired shape (trusted-base entry, structural)
    try:
        H = W.run_fn("mantra_dex_std::farm_manager::{impl#1}::is_expired")
        from absint import preds_of
        ok = any(rel_sign(n, a, om(r"^self\.expiring_at$"), "<=", om(r"^current_time$")) == (1 if p else -1) for (n, a, p) in preds_of(H.ret))
        chk.expect(ok, "SEM-is_expired", "Position::is_expired", "expiring_at <= current_time (the boundary second is unlocked)",
                   "Position::is_expired is %s" % show(H.ret), H.entry)
    except KeyError:
        chk.fail("SEM-is_expired", "Position::is_expired", "function not found in the fact base", "")

    # ---- create
    A = W.run(fm, "execute", ("ManagePosition", ".action", "Create"))
    saves = [e for e in pos_writes(A) if e.extra.get("sop") == "save"]
    for e in saves:
        v = e.extra.get("value", EMPTY)
        checks = [
            ("lp_asset", exact_origins(vfield(v, "lp_asset")) == {"info.funds[*]"} and not ops_of(vfield(v, "lp_asset")), "exact one_coin(info)"),
            ("receiver", all_origins(vfield(v, "receiver")) == {"info.sender", P + ".Create.receiver"} and not ops_of(vfield(v, "receiver")), "sender or validated receiver"),
            ("open", const_of(vfield(v, "open")) == "true", "true"),
            ("expiring_at", tagvals(vfield(v, "expiring_at"), "#v:std::option::Option") == {"None"}, "None"),
            ("unlocking_duration", exact_origins(vfield(v, "unlocking_duration")) == {P + ".Create.unlocking_duration"}, "requested duration"),
        ]
        for f, ok, what in checks:
            chk.expect(ok, "PROV-position-fields", "create." + f, "%s = %s" % (f, what), "created position %s <- %s" % (f, show(vfield(v, f))[:200]), where(e))
        # identifier: existence check uses the very identifier that is saved
        key = e.extra.get("key", EMPTY)
        looked = [r.extra.get("key", EMPTY) for r in A.reads() if r.extra.get("item") == "POSITIONS" and r.extra.get("sop") in ("may_load", "load")]
        same = any(set(flat_atoms(k)) == set(flat_atoms(key)) for k in looked)
        chk.expect(same and set(flat_atoms(vfield(v, "identifier"))) == set(flat_atoms(key)), "KEY-create-identifier", "create",
                   "the existence check, the saved key and the stored identifier are the same prefixed identifier",
                   "existence check looks up %s but the position is saved under %s" % ([sorted(all_origins(k)) for k in looked], sorted(flat_atoms(key))[:6]), where(e))
    no_effects(chk, W, "CUT-identifier-unused", fm, ("ManagePosition", ".action", "Create"),
               [PredFalse("position.is_none()", pred_test("is_some", r"^Store\(POSITIONS\)$"))], "", effects=pos_writes)
    for e in A.writes():
        if e.extra.get("item") == "POSITION_ID_COUNTER":
            o = opmap(e.extra.get("value", EMPTY))
            chk.expect(set(o) <= {"Store(POSITION_ID_COUNTER)", "Const(1_u64)", "Const(default)"} and o.get("Store(POSITION_ID_COUNTER)") == frozenset(["add"]),
                       "PROV-counter", "create", "counter <- counter + 1", "POSITION_ID_COUNTER <- %s" % o, where(e))
    ex = W.F.const_literal("farm_manager::position::helpers::EXPLICIT_POSITION_ID_PREFIX")
    au = W.F.const_literal("farm_manager::position::helpers::AUTO_POSITION_ID_PREFIX")
    if ex is None or au is None:
        chk.skip("CONST-id-prefixes", "u-/p-", "prefix constants not found under these names (renamed / inlined); the key-agreement rules above do not need them")
    else:
        good = ex != au and not ex.strip('"').startswith(au.strip('"')) and not au.strip('"').startswith(ex.strip('"'))
        chk.expect(bool(good), "CONST-id-prefixes", "u-/p-", "%s vs %s" % (ex, au), "position id prefixes %s / %s can collide" % (ex, au), "")

    # ---- expand
    A = W.run(fm, "execute", ("ManagePosition", ".action", "Expand"))
    for e in [e for e in pos_writes(A) if e.extra.get("sop") == "save"]:
        v = e.extra.get("value", EMPTY)
        am = opmap(vfield(vfield(v, "lp_asset"), "amount"))
        chk.expect(am == {"Store(POSITIONS).lp_asset.amount": frozenset(["add"]), "info.funds[*].amount": frozenset(["add"])},
                   "PROV-position-fields", "expand.amount", "amount <- stored amount + one_coin amount (checked add)",
                   "expanded amount <- %s" % {k: sorted(x) for k, x in am.items()}, where(e))
        from rules.common import overrides
        ov = {".".join(p) for p, f in overrides(v, "Store(POSITIONS)")}
        chk.expect(ov <= {"lp_asset", "lp_asset.amount"}, "PROV-position-fields", "expand.other", "only the amount changes",
                   "expand also changes %s" % sorted(ov), where(e))
        chk.expect(all_origins(e.extra.get("key", EMPTY)) == {"Store(POSITIONS).identifier"}, "KEY-expand", "expand", "saved under its own identifier",
                   "expand saves under %s" % sorted(all_origins(e.extra.get("key", EMPTY))), where(e))

    # ---- close
    A = W.run(fm, "execute", ("ManagePosition", ".action", "Close"))
    for e in [e for e in pos_writes(A) if e.extra.get("sop") == "save"]:
        v = e.extra.get("value", EMPTY)
        partial = "Store(POSITIONS)" not in {o for (o, ops) in v.atoms}
        ea = opmap(vfield(v, "expiring_at"))
        want_exp = {"env.block.time": frozenset(["add"]), "Store(POSITIONS).unlocking_duration": frozenset(["add"])}
        if partial:
            ok = (exact_origins(vfield(v, "lp_asset")) == {P + ".Close.lp_asset"} and not ops_of(vfield(v, "lp_asset"))
                  and exact_origins(vfield(v, "receiver")) == {"Store(POSITIONS).receiver"} and const_of(vfield(v, "open")) == "false"
                  and ea == want_exp and exact_origins(vfield(v, "unlocking_duration")) == {"Store(POSITIONS).unlocking_duration"})
            chk.expect(ok, "PROV-position-fields", "partial-close.new", "new closed position = requested lp_asset, same receiver/duration, expiring at now+duration",
                       "partial close creates %s" % show(v)[:400], where(e))
        else:
            ea2 = {o: ops for o, ops in ea.items() if o != "Store(POSITIONS).expiring_at"}
            am = {}
            for (o, ops) in flat_atoms(vfield(vfield(v, "lp_asset"), "amount")):
                am[o] = frozenset(am.get(o, frozenset()) | ops)
            want_am = {"Store(POSITIONS).lp_asset.amount", P + ".Close.lp_asset.amount"}
            ok = ea2 == want_exp and am == {"Store(POSITIONS).lp_asset.amount": frozenset(["sat", "sub", "sub:l"]),
                                             P + ".Close.lp_asset.amount": frozenset(["sat", "sub", "sub:r"])}
            chk.expect(ok, "PROV-position-fields", "close.original", "expiring_at <- now + unlocking_duration; amount <- stored - requested",
                       "close writes expiring_at %s amount %s" % ({k: sorted(x) for k, x in ea.items()}, {k: sorted(x) for k, x in am.items()}), where(e))

    pool_side(W, chk)


def pool_side(W, chk):
    """pool-manager: LP is locked only for the message sender; only the sender's own position is expanded."""
    pm = "pool_manager"
    PL = "msg.ProvideLiquidity"

    def farm_calls(A):
        return [e for e in A.calls(r"cosmwasm_std::wasm_execute$") if exact_origins(e.extra["dargs"][0]) == {"Store(CONFIG).farm_manager_addr"}]
    R_IS_S = EQ("receiver==info.sender", r"^(info\.sender|msg\.ProvideLiquidity\.receiver)$", r"^info\.sender$")
    S_IS_SELF = EQ("info.sender==contract", r"^info\.sender$", r"^env\.contract\.address$")
    pol = CutPolicy([R_IS_S, S_IS_SELF])
    A = W.run(pm, "execute", ("ProvideLiquidity",), pol)
    fc = farm_calls(A)
    chk.expect(all(c.name in pol.hits for c in (R_IS_S, S_IS_SELF)) and not fc, "CUT-lock-for-sender", "multi-asset path",
               "no farm-manager call unless receiver == sender (or the contract calls itself)",
               "LP can be locked without receiver==sender: %d farm-manager calls reachable (guards found %s)" % (len(fc), sorted(pol.hits)),
               where(fc[0]) if fc else A.entry)
    A0 = W.run(pm, "execute", ("ProvideLiquidity",))
    fc0 = farm_calls(A0)
    kinds_seen = set()
    for i, e in enumerate(fc0):
        msg = e.extra["dargs"][1]
        act = vfield(vfield(msg, "ManagePosition"), "action")
        kind = tagvals(act, "#v:mantra_dex_std::farm_manager::PositionAction") or set()
        kinds_seen |= kind
        if not kind or kind - {"Create", "Expand"}:
            chk.fail("AGREE-lock-msg", "unknown", "unexpected farm-manager message %s" % sorted(kind), where(e))
        nonconst = lambda v: {o for o in exact_origins(v) if not o.startswith("Const(")}   # noqa: E731
        if "Create" in kind:       # (one constructor site may build either action: each variant's payload is checked on its own)
            c = vfield(act, "Create")
            ok = all_origins(vfield(c, "receiver")) == {"info.sender", PL + ".receiver"} and \
                exact_origins(vfield(c, "unlocking_duration")) == {PL + ".unlocking_duration"} and \
                nonconst(vfield(c, "identifier")) <= {PL + ".lock_position_identifier"}
            chk.expect(ok, "AGREE-lock-msg", "create#%d" % i, "Create{identifier, unlocking_duration, receiver} <- request fields",
                       "lock message Create is wired as %s" % show(c)[:300], where(e))
        if "Expand" in kind:
            c = vfield(act, "Expand")
            chk.expect(exact_origins(vfield(c, "identifier")) == {PL + ".lock_position_identifier"}, "AGREE-lock-msg", "expand#%d" % i,
                       "Expand{identifier} <- lock_position_identifier", "Expand identifier <- %s" % show(vfield(c, "identifier")), where(e))
    chk.expect(kinds_seen == {"Create", "Expand"} and len(fc0) >= 1, "WHO-farm-calls", "ProvideLiquidity", "farm-manager calls: Create and Expand only (%d site(s))" % len(fc0),
               "farm-manager calls build %s" % sorted(kinds_seen), A0.entry)
    # expanding an existing position: each conjunct of the ownership check cuts the Expand message
    Q = r"^Query\(Positions\)\.positions"
    conj = [("one position", PredTrue("positions.len()==1", eq_test(Q + r"$", r"^Const\(1_usize\)$"))),
            ("same identifier", PredTrue("positions[0].identifier==id", eq_test(Q + r"\[\*\]\.identifier$", r"^msg\.ProvideLiquidity\.lock_position_identifier$"))),
            ("owned by receiver", PredTrue("positions[0].receiver==receiver", eq_test(Q + r"\[\*\]\.receiver$", r"^(info\.sender|msg\.ProvideLiquidity\.receiver)$")))]
    for nm, cut in conj:
        pol = CutPolicy([cut])
        A = W.run(pm, "execute", ("ProvideLiquidity",), pol)
        ex = [e for e in farm_calls(A) if tagvals(vfield(vfield(e.extra["dargs"][1], "ManagePosition"), "action"),
                                                  "#v:mantra_dex_std::farm_manager::PositionAction") == {"Expand"}]
        chk.expect(bool(pol.hits) and not ex, "CUT-expand-own-position", nm, "Expand message unreachable without `%s`" % cut.name,
                   "an existing position can be expanded without `%s` (guard found: %s)" % (cut.name, bool(pol.hits)), where(ex[0]) if ex else A.entry)
    # the LP minted for locking goes to the contract and the same amount is forwarded
    mints = A0.calls_id(r"lp_common::mint_lp_token_msg$")
    self_mints = [e for e in mints if exact_origins(e.extra["dargs"][1]) == {"env.contract.address"}]
    chk.expect(len(mints) == 4 and len(self_mints) == 3, "WHO-mints", "ProvideLiquidity", "4 mint sites, 3 to the contract itself",
               "%d mint sites, %d to the contract" % (len(mints), len(self_mints)), A0.entry)
    # self-calls of the contract are only Swap / ProvideLiquidity
    for which, vp in (("execute", ("ProvideLiquidity",)), ("reply", None)):
        X = A0 if which == "execute" else W.run(pm, "reply", None)
        for e in X.calls(r"cosmwasm_std::wasm_execute$"):
            if exact_origins(e.extra["dargs"][0]) == {"env.contract.address"}:
                kinds = tagvals(e.extra["dargs"][1], "#v:mantra_dex_std::pool_manager::ExecuteMsg")
                chk.expect(kinds is not None and kinds <= {"Swap", "ProvideLiquidity"}, "WHO-self-calls", "%s@%s" % (which, e.span.rsplit(":", 1)[-1]),
                           "self-call is %s" % kinds, "the contract sends itself %s (it could spend its own LP)" % kinds, where(e))
