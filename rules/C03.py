"""C03 - swaps never reduce pool value (one necessary clause: rounding direction on the constant-product path)."""
import re
from rules.common import (opmap, VariantEdge, where, flat_atoms, all_origins, exact_origins, ops_of, show)
from base import CutPolicy
from absint import EMPTY, vfield

EXPLANATION = ("static analysis (operator-class provenance inside compute_swap, constant-product arm assumed): the gross output is reached "
               "from {ask reserve, offer reserve, offer amount} through mul / add / floor-division only, the offer is on the numerator and "
               "the sum offer_pool+offer on the denominator, and every fee is a floor share of that gross output. Rounding the amount that "
               "leaves the pool upward breaks x*y non-decrease for concrete inputs (x=y=10, dx=1), so the clause is necessary. On the "
               "stableswap arm the output is reserve - y with y from a Newton iteration: direction undetermined, reported, not claimed")
ASSUMPTIONS = ["the invariant inequality itself, round-trip non-profitability and every decimals mix are numeric facts that are NOT decided"]
TECHNIQUE = "static analysis: rounding-direction / operand-role classes on the constant-product swap formula"
LEVEL_TEXT = "One necessary structural clause of the property, exhaustive over the CFG paths of compute_swap's constant-product arm."
LEVEL_NOTE = "Thin: decides only the rounding/operand-role clause for constant product; the property as a whole is out of reach of static analysis."
FLOORS = {"ROUND-cp-swap": 2}


def run(W, chk):
    fid = "pool_manager::helpers::compute_swap"
    pol = CutPolicy([VariantEdge("assume ConstantProduct", r"^pool_info\.pool_type$", ["StableSwap"])])
    H = W.run_fn(fid, policy=pol)
    r = H.ret if H.ret is not None else EMPTY
    chk.expect(bool(pol.hits), "ROUND-cp-swap", "anchor", "pool-type dispatch found", "pool_type dispatch not found in compute_swap", H.entry)
    m = opmap(vfield(r, "return_amount"), lambda o, ops: not o.startswith("Const("))
    res = {o: ops for o, ops in m.items() if o.startswith("pool_info.assets") or o.startswith("offer_asset")}
    allops = set().union(*m.values()) if m else set()
    ok = "pool_info.assets[*].amount" in m and "offer_asset.amount" in m and "div_ceil" not in allops and "div_floor" in allops and \
        "div:r" in m["pool_info.assets[*].amount"] and "div:l" in m["offer_asset.amount"] and "wrap" not in allops and "kernel:calculate_stableswap_y" not in allops
    chk.expect(ok, "ROUND-cp-swap", "gross return", "return = floor(ask * offer / (offer_pool + offer)) minus floor fees",
               "constant-product return computed as %s" % {k: sorted(v) for k, v in res.items()}, H.entry)
    for f in ("swap_fee_amount", "protocol_fee_amount", "burn_fee_amount", "extra_fees_amount"):
        fm = opmap(vfield(r, f), lambda o, ops: not o.startswith("Const("))
        ops = set().union(*fm.values()) if fm else set()
        chk.expect("div_ceil" not in ops and "div_floor" in ops, "ROUND-cp-swap", f, "fee is a floor share", "%s ops %s" % (f, sorted(ops)), H.entry)
    # stableswap arm: reported, not claimed
    pol2 = CutPolicy([VariantEdge("assume StableSwap", r"^pool_info\.pool_type$", ["ConstantProduct"])])
    S = W.run_fn(fid, policy=pol2)
    sm = opmap(vfield(S.ret if S.ret is not None else EMPTY, "return_amount"))
    k = any("kernel:calculate_stableswap_y" in ops for ops in sm.values())
    chk.notes.append("stableswap arm: output goes through the Newton kernel (%s): rounding direction undetermined, nothing claimed" % k)
    sub_checked = not any("wrap" in ops or "sat" in ops for o, ops in sm.items() if o.startswith("pool_info.assets"))
    chk.expect(sub_checked, "ARITH-stableswap-output", "return_amount", "stableswap output = reserve - y by checked subtraction (cannot exceed the reserve)",
               "stableswap output uses saturating/wrapping arithmetic on the reserve", S.entry)
