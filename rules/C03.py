"""C03 - swaps never reduce pool value (one necessary clause: rounding direction on the constant-product path)."""
import re
from rules.common import (opmap, VariantEdge, where, flat_atoms, all_origins, exact_origins, ops_of, show)
from base import CutPolicy, PredFalse
from rules.common import no_effects
from absint import EMPTY, vfield

EXPLANATION = ("static analysis (operator-class provenance inside compute_swap, constant-product arm assumed): the gross output is reached "
               "from {ask reserve, offer reserve, offer amount} through mul / add / floor-division only, the offer is on the numerator and "
               "the sum offer_pool+offer on the denominator, and every fee is a floor share of that gross output. Rounding the amount that "
               "leaves the pool upward breaks x*y non-decrease for concrete inputs (x=y=10, dx=1), so the clause is necessary. On the "
               "stableswap arm the output is reserve - y with y from a Newton iteration: direction undetermined, reported, not claimed")
ASSUMPTIONS = ["the invariant inequality itself, round-trip non-profitability and every decimals mix are numeric facts that are NOT decided"]
TECHNIQUE = "static analysis: rounding-direction / operand-role classes on the constant-product swap formula, guard cut-set (offer asset != ask asset), unit agreement of decimal scales, coupled-vector order shared with C16"
LEVEL_TEXT = "One necessary structural clause of the property, exhaustive over the CFG paths of compute_swap's constant-product arm."
LEVEL_NOTE = "Thin: decides only the rounding/operand-role clause for constant product; the property as a whole is out of reach of static analysis."
FLOORS = {"ROUND-cp-swap": 2, "CUT-distinct-assets": 2}


def refs(v):
    """origins a value stands for: its own, plus - for an index found by position()/find() - the operands of the match"""
    out = set(all_origins(v))
    t = v.fields.get("#may:pos")
    if t is not None:
        for a in t.atoms:
            if isinstance(a[0], tuple) and a[0][0] == "pred" and a[0][1] in ("eq", "ne"):
                for x in a[0][2:]:
                    out |= all_origins(x)
    return out


def distinct_assets(W, chk, vp, offer, ask, lab):
    """a swap of an asset for itself is refused before any effect (offer index == ask index would pay out of, and
    deposit into, the same reserve while computing the price from it twice)"""
    def test(pn, pa):
        if pn != "eq" or len(pa) < 2:
            return False
        a, b = refs(pa[0]), refs(pa[1])
        return (offer in a and ask in b) or (offer in b and ask in a)
    cut = PredFalse("offer asset != ask asset", test)
    from rules.C17 import pool_effects   # a route of zero hops only hands the caller's own funds back
    no_effects(chk, W, "CUT-distinct-assets", "pool_manager", vp, [cut], lab, effects=pool_effects)


def run(W, chk):
    from rules.common import borrow
    borrow(W, chk, "C16", {"ORDER-coupled-vectors"}, "reserves stay index-coupled with the decimals the invariant is normalised with")
    from rules.swapcore import N
    fid = N.bind(W).CS
    distinct_assets(W, chk, ("Swap",), "info.funds[*].denom", "msg.Swap.ask_asset_denom", "")
    distinct_assets(W, chk, ("ExecuteSwapOperations",), "msg.ExecuteSwapOperations.operations[*].MantraSwap.token_in_denom",
                    "msg.ExecuteSwapOperations.operations[*].MantraSwap.token_out_denom", "")
    pol = CutPolicy([VariantEdge("assume ConstantProduct", r"^pool_info\.pool_type$", ["StableSwap"])])
    H = W.run_fn(fid, policy=pol)
    r = H.ret if H.ret is not None else EMPTY
    chk.expect(bool(pol.hits), "ROUND-cp-swap", "anchor", "pool-type dispatch found", "pool_type dispatch not found in compute_swap", H.entry)
    m = opmap(vfield(r, "return_amount"), lambda o, ops: not o.startswith("Const("))
    res = {o: ops for o, ops in m.items() if o.startswith("pool_info.assets") or o.startswith("offer_asset")}
    allops = set().union(*m.values()) if m else set()
    ok = "pool_info.assets[*].amount" in m and "offer_asset.amount" in m and "div_ceil" not in allops and "div_floor" in allops and \
        "div:r" in m["pool_info.assets[*].amount"] and "div:l" in m["offer_asset.amount"] and not (allops & {"wrap", "sat", "max", "min"}) and "kernel:calculate_stableswap_y" not in allops
    chk.expect(ok, "ROUND-cp-swap", "gross return", "return = floor(ask * offer / (offer_pool + offer)) minus floor fees",
               "constant-product return computed as %s" % {k: sorted(v) for k, v in res.items()}, H.entry)
    # the gross output (the amount every fee share is taken from) is a single floored quotient: a floored term that is
    # *subtracted* (ask - floor(k / (x + dx))) rounds the output up; the subtracting form is accepted only with a round-up division
    gross = [e for e in H.calls(r"fee::Fee::compute$") if len(e.extra.get("dargs", [])) > 1]
    if not gross:
        chk.skip("ROUND-cp-swap", "gross output", "no Fee::compute call on the constant-product arm (fees computed differently)")
    for e in gross[:1]:
        gm = opmap(e.extra["dargs"][1], lambda o, ops: not o.startswith("Const("))
        gops = set().union(*gm.values()) if gm else set()
        chk.expect("div_floor" in gops and not (gops & {"sat", "wrap", "min", "max"}) and ("sub" not in gops or "div_ceil" in gops) and
                   "div:l" in gm.get("offer_asset.amount", ()) and "div:r" in gm.get("pool_info.assets[*].amount", ()), "ROUND-cp-swap", "gross output",
                   "gross = floor(ask * offer / (offer_pool + offer)): the offer on the numerator, no floored term subtracted",
                   "gross constant-product output computed as %s: a floored term is subtracted (the output is rounded up), or the offer left the numerator" % {k: sorted(v) for k, v in gm.items()}, where(e))
    for f in ("swap_fee_amount", "protocol_fee_amount", "burn_fee_amount", "extra_fees_amount"):
        fm = opmap(vfield(r, f), lambda o, ops: not o.startswith("Const("))
        ops = set().union(*fm.values()) if fm else set()
        chk.expect("div_ceil" not in ops and "div_floor" in ops, "ROUND-cp-swap", f, "fee is a floor share", "%s ops %s" % (f, sorted(ops)), H.entry)
    # stableswap arm: reported, not claimed
    pol2 = CutPolicy([VariantEdge("assume StableSwap", r"^pool_info\.pool_type$", ["ConstantProduct"])])
    S = W.run_fn(fid, policy=pol2)
    sm = opmap(vfield(S.ret if S.ret is not None else EMPTY, "return_amount"))
    k = any("kernel:calculate_stableswap_y" in ops for ops in sm.values())
    chk.notes.append("stableswap arm: output goes through the Newton kernel (%s): rounding direction undetermined, nothing claimed" % k)
    # unit agreement: amounts of different decimals are brought to a common scale and back; every scale used is
    # derived from the pool's own asset decimals (a constant scale is exact only for one decimals mix)
    fa = S.calls(r"cosmwasm_std::Decimal256::from_atomics$")
    if not fa:
        chk.skip("UNIT-precision", "stableswap arm", "no Decimal256::from_atomics scaling found on the stableswap arm (normalisation written differently)")
    for i, e in enumerate(fa):
        o = all_origins(e.extra["dargs"][1])
        pm = opmap(e.extra["dargs"][1])
        ops = set().union(*pm.values()) if pm else set()
        chk.expect(bool(o) and all(x.endswith("asset_decimals[*]") for x in o) and ops <= {"max", "sub", "sub:l", "sub:r"}, "UNIT-precision", "scale#%d" % i,
                   "scale = an asset's decimals, or max decimals - an asset's decimals", "decimal scale derived from %s" % {k: sorted(v) for k, v in pm.items()}, where(e))
    sub_checked = not any("wrap" in ops or "sat" in ops for o, ops in sm.items() if o.startswith("pool_info.assets"))
    chk.expect(sub_checked, "ARITH-stableswap-output", "return_amount", "stableswap output = reserve - y by checked subtraction (cannot exceed the reserve)",
               "stableswap output uses saturating/wrapping arithmetic on the reserve", S.entry)
