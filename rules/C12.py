"""C12 - swap quotes equal execution (single-source part)."""
import re
from rules.common import (opmap, where, flat_atoms, all_origins, exact_origins, ops_of, show, effects_signature)
from rules import swapcore as sc
from base import CutPolicy
from absint import EMPTY, vfield

EXPLANATION = ("static analysis (MIR abstract interpretation) with compute_swap as a cut point: every field of SimulationResponse and every "
               "amount perform_swap books or returns is the exact same-named field of one compute_swap call on the stored pool, the offer "
               "coin and the requested ask denom; the simulated route feeds each hop with exactly the previous return and the executed "
               "route with exactly the previous SwapResult.return_asset, over the same operation fields; no query entry point of any "
               "contract reaches a storage write or an outgoing message (and takes `Deps`, so the type system enforces it)")
ASSUMPTIONS = ["ReverseSimulation within one unit is numeric and not decided", "routes revisiting a pool are excluded by the property"]
TECHNIQUE = "static analysis: single-source provenance (cut-point origins) for quote and execution, query purity by effect enumeration and signature, loop lints on MIR CFG/def-use (accumulators, x=f(x) chains, early exits), iterator-adaptor scan"
LEVEL_TEXT = "Structural obligations over all paths of Simulation, SimulateSwapOperations, Swap, ExecuteSwapOperations and every query variant."
LEVEL_NOTE = "Not decided: the reverse quote bound."
PM = "pool_manager"
FLOORS = {"AGREE-simulation": 8, "T-query-pure": 15}


def run(W, chk):
    from rules.common import borrow
    borrow(W, chk, "C13", {"CUT-minimum-receive"}, "what the executed route delivers is the amount the quote is compared with")
    borrow(W, chk, "C04", {"PROV-swap-outflow"}, "the executed route pays out exactly the computed return")
    sc.simulation_wiring(W, chk)
    sc.swap_result_wiring(W, chk)
    # execution books exactly the quoted values (shared with C04)
    sc.swap_conservation(W, chk, ("Swap",), r"^info\.funds\[\*\]\.amount$", {"info.sender", "msg.Swap.receiver"}, "msg.Swap.ask_asset_denom", "Swap")
    # ---- simulated route
    sc.N.bind(W)
    C = sc.N.C
    pol = CutPolicy([], opaque=[sc.N.CS])
    Q = W.run(PM, "query", ("SimulateSwapOperations",), pol)
    O = "msg.SimulateSwapOperations"
    qs = sc.hop_offers(Q)
    chk.expect(len(qs) == 1, "AGREE-route", "simulate.anchor", "one swap computation per simulated hop", "%d swap computation sites" % len(qs), Q.entry)
    for (e, am, da) in qs:
        keys = set()
        for r_ in Q.reads():
            if r_.extra.get("item") == "POOLS":
                keys |= all_origins(r_.extra.get("key", EMPTY))
        ok = am == {O + ".offer_amount": frozenset(), C + ".return_amount": frozenset()} and \
            exact_origins(vfield(da[1], "denom")) == {O + ".operations[*].MantraSwap.token_in_denom"} and \
            exact_origins(da[2]) == {O + ".operations[*].MantraSwap.token_out_denom"} and keys == {O + ".operations[*].MantraSwap.pool_identifier"}
        chk.expect(ok, "AGREE-route", "simulate.hop", "hop(offer = initial amount or previous return, token_in -> token_out, pool_identifier)",
                   "simulated hop is fed %s / %s / pools %s" % ({k: sorted(v) for k, v in am.items()}, sorted(all_origins(da[2])), sorted(keys)), where(e))
    from rules.common import loop_accumulators, loop_chains, all_elements_processed
    loop_accumulators(W, chk, ["pool_manager"])   # incl. the reverse quote's fee sums
    from rules.common import visited_fns
    RQ = W.run(PM, "query", ("ReverseSimulateSwapOperations",), pol)
    # hop k's return is hop k+1's offer, unconditionally (simulated, reverse and executed routes)
    loop_chains(W, chk, ["pool_manager"], only=visited_fns(Q, RQ, W.run(PM, "execute", ("ExecuteSwapOperations",), pol)))
    all_elements_processed(chk, W, Q, r"\.operations\[\*\]", "simulate", "AGREE-route")
    from rules.common import no_truncation
    no_truncation(chk, Q, r"\.operations\[\*\]", "simulate.all-hops", "AGREE-route")
    r = Q.ret if Q.ret is not None else EMPTY
    ra = opmap(vfield(r, "return_amount"))
    chk.expect(ra == {O + ".offer_amount": frozenset(), C + ".return_amount": frozenset()}, "AGREE-route", "simulate.result",
               "reported amount = last hop's return (exact)", "SimulateSwapOperations.return_amount <- %s" % {k: sorted(v) for k, v in ra.items()}, Q.entry)
    # ---- executed route
    X = W.run(PM, "execute", ("ExecuteSwapOperations",), pol)
    E = "msg.ExecuteSwapOperations"
    for (e, am, da) in sc.hop_offers(X):
        keys = set()
        for r_ in X.reads():
            if r_.extra.get("item") == "POOLS":
                keys |= all_origins(r_.extra.get("key", EMPTY))
        ok = am == {"info.funds[*].amount": frozenset(), C + ".return_amount": frozenset()} and \
            exact_origins(da[2]) == {E + ".operations[*].MantraSwap.token_out_denom"} and keys == {E + ".operations[*].MantraSwap.pool_identifier"}
        chk.expect(ok, "AGREE-route", "execute.hop", "hop(offer = paid amount or previous return_asset, -> token_out, pool_identifier)",
                   "executed hop is fed %s / %s / pools %s" % ({k: sorted(v) for k, v in am.items()}, sorted(all_origins(da[2])), sorted(keys)), where(e))
    no_truncation(chk, X, r"\.operations\[\*\]", "execute.all-hops", "AGREE-route")
    all_elements_processed(chk, W, X, r"\.operations\[\*\]", "execute", "AGREE-route")
    mp = X.calls(r"cw_utils::must_pay$")
    chk.expect(len(mp) == 1 and exact_origins(mp[0].extra["dargs"][1]) == {E + ".operations[*].MantraSwap.token_in_denom"}, "AGREE-route", "execute.offer",
               "the paid-in coin must be the first operation's input denom", "must_pay denom %s" % [sorted(all_origins(x.extra["dargs"][1])) for x in mp], X.entry)
    # ---- queries are pure, on every contract
    for c in ("pool_manager", "farm_manager", "epoch_manager", "fee_collector"):
        b = W.entry(c, "query")
        chk.expect(b is not None and b.locals[1].startswith("cosmwasm_std::Deps<") or (b is not None and b.locals[1] == "cosmwasm_std::Deps"), "T-query-signature", c,
                   "query(deps: Deps, ..): storage is &dyn Storage", "query signature takes %s" % (b.locals[1] if b else None), b.span if b else "")
        paths, _ = W.variant_paths(c, "query")
        if not paths:
            paths = [None]
        for vp in paths:
            A = W.run(c, "query", vp)
            eff = A.effects()
            chk.expect(not eff, "T-query-pure", "%s/%s" % (c, "/".join(vp or ("query",))), "no storage write / outgoing message reachable",
                       "query has effects: %s" % effects_signature(A), where(eff[0]) if eff else "")
