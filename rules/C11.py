"""C11 - farm lifecycle conserves funds and respects owners and limits (structural part)."""
import re
from rules.common import (opmap, ValTrue, rel, rel_sign, PredTrue, PredFalse, TryOk, CallTrue, EQ, VariantEdge, NONPAYABLE, IS_OWNER, no_effects, where, flat_atoms,
                          all_origins, exact_origins, ops_of, show, origin_match, eq_test, pred_test, data_test, field_val,
                          effects_signature, overrides)
from rules.C15 import FARM_OWNER
from base import CutPolicy, dep_origins
from rules.common import rel, rel_sign, om, find_rel
from absint import EMPTY, vfield, tagvals, const_of

EXPLANATION = ("static analysis (MIR abstract interpretation): every creation / expansion precondition individually cuts the FARMS write; "
               "under an assumed zero creation fee in another denom the demanded number of coins is exactly one (assumption-restricted "
               "cut); fee / refund / budget provenance; expired farms (partition side `true`) are the ones closed, the others counted "
               "against the limit; refunds go to the stored owner for budget minus claimed; every constructed message reaches the Response")
ASSUMPTIONS = ["conservation as numbers over create-expand-claim-close histories is not decided", "epoch manager answers are trusted inputs"]
TECHNIQUE = "static analysis: guard cut-sets (incl. assumption-restricted), provenance of farm fields and payouts, partition-side agreement, enumeration bound, loop early-exit lint, query-argument provenance (expiry epoch)"
LEVEL_TEXT = ("Structural obligations over all paths of ManageFarm::{Create,Expand,Close} and UpdateConfig: must-pass-through guards, exact "
              "funds checks under every fee configuration shape (zero fee, same denom, other denom), field provenance, message commit.")
LEVEL_NOTE = "Not decided: numeric conservation; limit under configurations above MAX_FARMS_LIMIT."

MP = "msg.ManageFarm.action.Create.params"
XP = "msg.ManageFarm.action.Expand.params"
FEE_A = r"^Store\(CONFIG\)\.create_farm_fee\.amount$"
FEE_D = r"^Store\(CONFIG\)\.create_farm_fee\.denom$"
CREATE = ("ManageFarm", ".action", "Create")
EXPAND = ("ManageFarm", ".action", "Expand")
CLOSE = ("ManageFarm", ".action", "Close")
FLOORS = {"CUT-create-farm": 9, "CUT-expand-farm": 7, "ACUT-zero-fee": 1}

def LP_BY_PM(prefix):
    """the LP denom's factory creator equals the configured pool manager (however the check is packaged)"""
    return PredTrue("creator(lp_denom) == pool_manager_addr", lambda pn, pa: pn == "eq" and len(pa) > 1 and (
        (origin_match(pa[0], r"lp_denom$|^info\.funds\[\*\]\.denom$") and origin_match(pa[1], r"^Store\(CONFIG\)\.pool_manager_addr$")) or
        (origin_match(pa[1], r"lp_denom$|^info\.funds\[\*\]\.denom$") and origin_match(pa[0], r"^Store\(CONFIG\)\.pool_manager_addr$"))))


def FARM_EXPIRED(truth):
    """decision on a farm's expiry: a bool computed from the epoch-manager answer for the farm's end / its remaining budget"""
    def test(v):
        o = all_origins(v)
        return any(x.startswith("Query(Epoch)") for x in o) or {"Store(FARMS).claimed_amount", "Store(FARMS).farm_asset.amount"} <= o
    return ValTrue("farm expired" if truth else "!farm expired", test, truth)


ASSUME_FEE_ZERO = [PredFalse("assume fee.amount.is_zero()", pred_test("is_zero", FEE_A)),
                   PredFalse("assume fee.amount == 0", eq_test(FEE_A, r"^Const\(0\)$")),
                   PredTrue("assume !(fee.amount > 0)", rel(FEE_A, ">", r"^Const\(0\)$"))]
ASSUME_DENOMS_DIFFER = [PredTrue("assume fee.denom != asset.denom", eq_test(FEE_D, r"\.params\.farm_asset\.denom$"))]
ASSUME_DENOMS_SAME = [PredFalse("assume fee.denom == asset.denom", eq_test(FEE_D, r"\.params\.farm_asset\.denom$"))]


def farm_writes(A, sop=None):
    return [e for e in A.writes() if e.extra.get("item") == "FARMS" and (sop is None or e.extra.get("sop") == sop)]


def farm_saves(A):
    return farm_writes(A, "save")


def run(W, chk):
    fm = "farm_manager"
    # every expired farm found is closed and refunded: the closing loop is not left early; the expiry clock starts after the last epoch
    from rules.common import all_elements_processed, farm_expiry_epoch
    for vp in (("ManageFarm", ".action", "Create"), ("ManageFarm", ".action", "Close")):
        X = W.run(fm, "execute", vp)
        all_elements_processed(chk, W, X, r"^Store\(FARMS\)", vp[-1], "LOOP-all-elements")
    farm_expiry_epoch(chk, W.run(fm, "execute", ("ManageFarm", ".action", "Create")), "Create")
    # a closed farm is removed whether or not anything is left to refund (a fully claimed farm that stays stored keeps occupying the
    # window the concurrency limit is counted over)
    from rules.common import independent_of, zero_test
    for vp in (("ManageFarm", ".action", "Close"), ("ManageFarm", ".action", "Create")):
        independent_of(chk, W, "NONDEP-remove-vs-refund", fm, vp, "closing", "the refund is zero",
                       zero_test(lambda v: any(o in ("Store(FARMS).farm_asset.amount", "Store(FARMS).claimed_amount") for o in all_origins(v))),
                       lambda A: [e for e in A.writes() if e.extra.get("item") == "FARMS" and e.extra.get("sop") == "remove"],
                       "FARMS.remove is reached whether or not the unclaimed remainder is zero",
                       "removing a closed farm depends on its unclaimed remainder being (non-)zero: a fully claimed farm is never removed")

    # the farms counted against max_concurrent_farms are read up to that maximum (not up to the pagination default)
    from rules.common import farm_enumeration_bound
    farm_enumeration_bound(chk, W.run(fm, "execute", ("ManageFarm", ".action", "Create")), "Create", W)
    # ------------------------------------------------------------ creation guards
    guards = [
        ("lp denom from pool manager", [LP_BY_PM(MP)], ()),
        # the number of live farms (a length of the stored farms, or a counter) is compared with the configured maximum
        ("farm limit", [PredTrue("farms.len() < max_concurrent_farms", lambda pn, pa: rel_sign(
            pn, pa, lambda v: not exact_origins(v) & {"Store(CONFIG).max_concurrent_farms"}, "<", om(r"^Store\(CONFIG\)\.max_concurrent_farms$")))], ()),
        ("min amount", [PredTrue("amount >= MIN_FARM_AMOUNT", rel(MP + r"\.farm_asset\.amount$", ">=", r"^Const\("))], ()),
        ("starts after the current epoch", [PredTrue("start_epoch > current", rel(MP + r"\.start_epoch$|^Query\(CurrentEpoch\)\.id$|^Const\(1_u64\)$", ">", r"^Query\(CurrentEpoch\)\.id$"))], ()),
        ("identifier length", [PredTrue("identifier.len() <= MAX", lambda pn, pa: rel_sign(
            pn, pa, lambda v: any(o.endswith("farm_identifier") and "len" in ops for (o, ops) in flat_atoms(v)), "<=", lambda v: all_origins(v) <= {"Const(66_usize)"} and bool(all_origins(v))))], ()),
        ("identifier unused", [PredFalse("farm exists", lambda pn, pa: pn == "is_ok" and origin_match(pa[0], r"^Store\(FARMS\)")),
                               VariantEdge("farm lookup fails", r"^Store\(FARMS\)", ["Err", "None"])], ()),
        ("exact reward (other denom)", [PredTrue("sent == reward", eq_test(r"^info\.funds\[\*\]\.amount$", MP + r"\.farm_asset\.amount$"))], ASSUME_DENOMS_DIFFER),
        ("exact reward+fee (same denom)", [PredTrue("reward + fee == sent", lambda pn, pa: pn == "eq" and len(pa) > 1 and (
            (origin_match(pa[0], r"create_farm_fee\.amount$|farm_asset\.amount$") and origin_match(pa[1], r"^info\.funds\[\*\]\.amount$")) or
            (origin_match(pa[1], r"create_farm_fee\.amount$|farm_asset\.amount$") and origin_match(pa[0], r"^info\.funds\[\*\]\.amount$"))) and
            any("add" in ops for x in pa[:2] for (o, ops) in flat_atoms(x)))], ASSUME_DENOMS_SAME),
        ("coin count", [PredTrue("funds.len() == expected", lambda pn, pa: pn == "eq" and origin_match(pa[0], r"^info\.funds$") and
                                 all(o.startswith("Const(") for o in all_origins(pa[1])))], ()),
    ]
    for nm, cuts, extra in guards:
        no_effects(chk, W, "CUT-create-farm", fm, CREATE, cuts, " [%s]" % nm, effects=farm_saves, extra=extra)

    # ------------------------------------------------------------ ACUT: zero fee in another denom => exactly one coin
    pol = CutPolicy(ASSUME_FEE_ZERO + ASSUME_DENOMS_DIFFER)
    A = W.run(fm, "execute", CREATE, pol)
    ks = set()
    for e in A.switches():
        for a in e.vals[0].atoms:
            if isinstance(a[0], tuple) and a[0][0] == "pred" and a[0][1] in ("eq", "ne") and origin_match(a[0][2], r"^info\.funds$"):
                ks |= all_origins(a[0][3])
    saves = farm_saves(A)
    chk.expect(ks == {"Const(1_usize)"} and bool(saves), "ACUT-zero-fee", "create_farm/assert_farm_asset",
               "with a zero creation fee in another denom an accepting path demands exactly one coin (the reward)",
               "with create_farm_fee.amount == 0 and fee denom != reward denom the accepting paths compare funds.len() with %s "
               "(the reward alone is rejected / a stray second coin is accepted and kept); FARMS.save reachable: %s" % (sorted(ks), bool(saves)),
               A.entry)

    # ------------------------------------------------------------ fee / refund / budget provenance
    A = W.run(fm, "execute", CREATE)
    sends = {}
    for e in A.aggs(r"BankMsg::Send$"):
        to = tuple(sorted(all_origins(A.d(field_val(e, "to_address")))))
        sends.setdefault(to, []).append(e)
    fc = sends.get(("Store(CONFIG).fee_collector_addr",), [])
    chk.expect(len(fc) == 1 and exact_origins(A.d(vfield(field_val(fc[0], "amount"), "[*]"))) == {"Store(CONFIG).create_farm_fee"}
               and not ops_of(A.d(field_val(fc[0], "amount"))), "PROV-farm-fee", "fee",
               "Send(exact fee_collector_addr, exact create_farm_fee)", "creation fee message: %s" % [show(A.d(field_val(x, "amount")))[:200] for x in fc],
               where(fc[0]) if fc else A.entry)
    rf = sends.get(("info.sender",), [])
    okr = len(rf) == 1
    if okr:
        am = opmap(A.d(vfield(vfield(field_val(rf[0], "amount"), "[*]"), "amount")))
        okr = am == {"Store(CONFIG).create_farm_fee.amount": frozenset(["sat", "sub", "sub:r"]), "info.funds[*].amount": frozenset(["sat", "sub", "sub:l"])}
    chk.expect(okr, "PROV-farm-fee", "refund", "overpayment refund to info.sender = paid - fee", "refund messages: %d / %s" % (len(rf), [show(A.d(field_val(x, "amount")))[:200] for x in rf]),
               where(rf[0]) if rf else A.entry)
    own = sends.get(("Store(FARMS).owner",), [])
    chk.expect(set(sends) <= {("Store(CONFIG).fee_collector_addr",), ("info.sender",), ("Store(FARMS).owner",)}, "PROV-farm-fee", "recipients",
               "create_farm pays only the fee collector, the sender (refund) and owners of auto-closed farms", "recipients: %s" % sorted(sends), A.entry)
    for e in farm_saves(A):
        v = e.extra.get("value", EMPTY)
        ck = [("farm_asset", exact_origins(vfield(v, "farm_asset")) == {MP + ".farm_asset"} and not ops_of(vfield(v, "farm_asset"))),
              ("owner", exact_origins(vfield(v, "owner")) == {"info.sender"}),
              ("claimed_amount", const_of(vfield(v, "claimed_amount")) == "0"),
              ("lp_denom", exact_origins(vfield(v, "lp_denom")) == {MP + ".lp_denom"})]
        for f, ok in ck:
            chk.expect(ok, "PROV-farm-fields", "create." + f, "%s recorded as specified" % f, "new farm %s <- %s" % (f, show(vfield(v, f))[:200]), where(e))
        er = opmap(vfield(v, "emission_rate"), lambda o, ops: not o.startswith("Const("))
        chk.expect(er.get(MP + ".farm_asset.amount") == frozenset(["div_floor", "div:l"]) and "div_ceil" not in ops_of(vfield(v, "emission_rate")),
                   "PROV-farm-fields", "create.emission_rate", "emission_rate = amount div_floor (end - start)", "emission_rate <- %s" % {k: sorted(x) for k, x in er.items()}, where(e))
        key = e.extra.get("key", EMPTY)
        chk.expect(set(flat_atoms(key)) == set(flat_atoms(vfield(v, "identifier"))), "KEY-farm", "create", "saved under its own identifier", "key differs from identifier", where(e))
    # partition: expired -> closed ; not expired -> counted
    if not A.calls(r"Iterator::partition$"):
        chk.skip("AGREE-partition", "create farm", "expired / live farms are not separated with Iterator::partition here; the enumeration-bound, limit and closing rules "
                 "decide the clause")
    else:
        loops = [e for e in A.calls(r"IntoIterator.*::into_iter$") if "#part" in A.d(e.extra["dargs"][0]).fields]
        ok = bool(loops) and all(tagvals(A.d(e.extra["dargs"][0]), "#part") == {"true"} for e in loops)
        lens = [e for e in A.calls(r"Vec::<.*>::len$") if "#part" in A.d(e.extra["dargs"][0]).fields]
        ok2 = bool(lens) and all(tagvals(A.d(e.extra["dargs"][0]), "#part") == {"false"} for e in lens)
        chk.expect(ok and ok2, "AGREE-partition", "create farm", "the expired side of the partition is the one iterated (closed), the other side is counted against the limit",
                   "partition sides are crossed: iterated %s, counted %s" % (
                       [tagvals(A.d(e.extra["dargs"][0]), "#part") for e in loops], [tagvals(A.d(e.extra["dargs"][0]), "#part") for e in lens]), A.entry)
        preds_ = [A.d(e.extra["dargs"][0]).fields.get("#may:pred") for e in loops + lens]
        okp = bool(preds_) and all(p is not None and (any(x.startswith("Query(Epoch)") for x in all_origins(p)) or
                                                      {"Store(FARMS).claimed_amount", "Store(FARMS).farm_asset.amount"} <= all_origins(p)) for p in preds_)
        chk.expect(okp, "AGREE-partition", "predicate", "the partition predicate is the farm-expiry test", "partition predicate is not the farm expiry test", A.entry)
    commit(chk, A, "create_farm")

    # ------------------------------------------------------------ expand
    eg = [
        ("owner", [FARM_OWNER]),
        ("not ended", [PredTrue("current.id < preliminary_end_epoch", rel(r"^Query\(CurrentEpoch\)\.id$", "<", r"^Store\(FARMS\)\.preliminary_end_epoch$"))]),
        ("not expired", [FARM_EXPIRED(False)]),
        ("lp denom", [LP_BY_PM(XP)]),
        ("attached == declared", [PredTrue("one_coin == params.farm_asset", eq_test(r"^info\.funds\[\*\]$", XP + r"\.farm_asset$"))]),
        ("same reward denom", [PredTrue("farm denom == declared denom", eq_test(r"^Store\(FARMS\)\.farm_asset\.denom$", "(" + XP + r"\.farm_asset|^info\.funds\[\*\])\.denom$"))]),      # attached == declared is its own cut: either names the coin
        ("multiple of rate", [PredTrue("amount % rate == 0", lambda pn, pa: pn in ("eq", "is_zero") and any("rem" in ops for (o, ops) in flat_atoms(pa[0])) and
                                       origin_match(pa[0], r"emission_rate$|info\.funds\[\*\]\.amount$"))]),      # `x % rate == 0` / `(x % rate).is_zero()`
    ]
    for nm, cuts in eg:
        no_effects(chk, W, "CUT-expand-farm", fm, EXPAND, cuts, " [%s]" % nm, effects=farm_saves)
    A = W.run(fm, "execute", EXPAND)
    for e in farm_saves(A):
        v = e.extra.get("value", EMPTY)
        am = opmap(vfield(vfield(v, "farm_asset"), "amount"))
        if XP + ".farm_asset.amount" in am and "info.funds[*].amount" not in am:
            am["info.funds[*].amount"] = am.pop(XP + ".farm_asset.amount")
        chk.expect(am == {"Store(FARMS).farm_asset.amount": frozenset(["add"]), "info.funds[*].amount": frozenset(["add"])}, "PROV-farm-fields", "expand.amount",
                   "budget += attached amount (checked)", "expanded budget <- %s" % {k: sorted(x) for k, x in am.items()}, where(e))
        en = opmap(vfield(v, "preliminary_end_epoch"))
        if "info.funds[*].amount" in en and XP + ".farm_asset.amount" not in en:      # the attached coin, equal to the declared one (cut above)
            en[XP + ".farm_asset.amount"] = en.pop("info.funds[*].amount")
        want = {"Store(FARMS).preliminary_end_epoch": frozenset(["add"]), "Store(FARMS).emission_rate": frozenset(["add", "div_floor", "div:r"]),
                XP + ".farm_asset.amount": frozenset(["add", "div_floor", "div:l"])}
        chk.expect(en == want, "PROV-farm-fields", "expand.end", "end += amount div_floor emission_rate", "end epoch <- %s" % {k: sorted(x) for k, x in en.items()}, where(e))
        ov = {".".join(p) for p, f in overrides(v, "Store(FARMS)")}
        chk.expect(ov <= {"farm_asset", "farm_asset.amount", "preliminary_end_epoch"}, "PROV-farm-fields", "expand.other", "nothing else changes", "expand also changes %s" % sorted(ov), where(e))
        chk.expect(all_origins(e.extra.get("key", EMPTY)) == {"Store(FARMS).identifier"}, "KEY-farm", "expand", "saved under its own identifier", "expand key %s" % sorted(all_origins(e.extra.get("key", EMPTY))), where(e))
    chk.expect(not A.outflow_aggs(), "PROV-expand-no-outflow", "expand", "expanding pays nobody", "expand_farm sends messages: %s" % effects_signature(A), A.entry)

    # ------------------------------------------------------------ close
    A = W.run(fm, "execute", CLOSE)
    close_refund(chk, A, "close_farm")
    commit(chk, A, "close_farm")

    # ------------------------------------------------------------ max_concurrent_farms may only grow
    g = PredTrue("new max >= old max", rel(r"^msg\.UpdateConfig\.max_concurrent_farms$", ">=", r"^Store\(CONFIG\)\.max_concurrent_farms$"))
    from rules.common import decision
    _NEW, _OLD = "msg.UpdateConfig.max_concurrent_farms", "Store(CONFIG).max_concurrent_farms"
    cands = [g] + decision("new max compared with old max", lambda pn, pa: pn in ("lt", "le", "gt", "ge") and len(pa) > 1 and
                           {frozenset(exact_origins(pa[0])), frozenset(exact_origins(pa[1]))} == {frozenset([_NEW]), frozenset([_OLD])})
    pol, bad = None, []
    for c_ in cands:      # direct comparison, or one nested in a combinator (`is_some_and(|m| m < old)`), either polarity
        pol = CutPolicy([c_])
        A = W.run(fm, "execute", ("UpdateConfig",), pol)
        bad = [e for e in A.writes() if e.extra.get("item") == "CONFIG" and
               _NEW in all_origins(vfield(e.extra.get("value", EMPTY), "max_concurrent_farms"))]
        if pol.hits and not bad:
            break
    chk.expect(bool(pol.hits) and not bad, "CUT-max-farms-monotone", "UpdateConfig", "max_concurrent_farms is only written behind `new >= old`",
               "max_concurrent_farms can be lowered (guard found: %s)" % bool(pol.hits), where(bad[0]) if bad else A.entry)


def ctag_deep(v, depth=0):
    """'#call' tags anywhere inside a value (through predicates)."""
    from base import call_tag
    out = set(call_tag(v))
    if depth > 6:
        return out
    for a in v.atoms:
        if isinstance(a[0], tuple) and a[0][0] == "pred":
            for x in a[0][2:]:
                if hasattr(x, "atoms"):
                    out |= ctag_deep(x, depth + 1)
    for k, f in v.fields.items():
        if not k.startswith("#"):
            out |= ctag_deep(f, depth + 1)
    return out


def close_refund(chk, A, lab):
    sends = A.aggs(r"BankMsg::Send$")
    rem = farm_writes(A, "remove")
    chk.expect(len(rem) >= 1 and all(all_origins(e.extra.get("key", EMPTY)) == {"Store(FARMS).identifier"} for e in rem), "PAIR-close-remove", lab,
               "FARMS.remove(farm.identifier)", "farm not removed / removed under another key", where(rem[0]) if rem else A.entry)
    ok = len(sends) >= 1
    for e in sends:
        to = exact_origins(A.d(field_val(e, "to_address")))
        if to != {"Store(FARMS).owner"}:
            continue
        am = opmap(A.d(vfield(vfield(field_val(e, "amount"), "[*]"), "amount")))
        good = to == {"Store(FARMS).owner"} and am == {"Store(FARMS).farm_asset.amount": frozenset(["sat", "sub", "sub:l"]),
                                                       "Store(FARMS).claimed_amount": frozenset(["sat", "sub", "sub:r"])}
        den = all_origins(A.d(vfield(vfield(field_val(e, "amount"), "[*]"), "denom")))
        good = good and den == {"Store(FARMS).farm_asset.denom"}
        chk.expect(good, "PROV-close-refund", lab, "refund(exact farm.owner, budget - claimed, farm denom)",
                   "close refund is Send(to=%s, amount=%s, denom=%s)" % (sorted(to), {k: sorted(x) for k, x in am.items()}, sorted(den)), where(e))
    chk.expect(ok, "PROV-close-refund", lab + ".anchor", "refund message present", "no refund message built when closing", A.entry)


def commit(chk, A, lab):
    """every constructed message reaches the returned Response"""
    ret = A.ret if A.ret is not None else EMPTY
    msgs = vfield(vfield(ret, "messages"), "[*]")
    txt_to = set()
    for (o, ops) in flat_atoms(msgs):
        txt_to.add(o)
    missing = []
    for e in A.aggs(r"BankMsg::Send$"):
        to = all_origins(A.d(field_val(e, "to_address")))
        if not to <= txt_to:
            missing.append((e, sorted(to)))
    subs = [e for e in A.calls(r"cosmwasm_std::SubMsg::<") if e.extra.get("submsg_mode") == "Error"]
    if subs:
        ro = all_origins(vfield(msgs, "reply_on"))
        if "Const(Error)" not in ro:
            missing.append((subs[0], ["reply_on_error sub-message"]))
    chk.expect(not missing, "PAIR-commit", lab, "every constructed outgoing message is part of the returned Response",
               "messages built but not returned: %s" % [m[1] for m in missing], where(missing[0][0]) if missing else "")
