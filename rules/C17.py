"""C17 - per-pool feature switches stop exactly the switched operation on every path."""
import re
from rules.common import (PredTrue, data_test, no_effects, where, exact_origins, all_origins, flat_atoms,
                          overrides, pool_writes, status_reads, effects_signature, show)
from absint import vget, const_of, EMPTY, vfield
from rules.common import VariantEdge
from base import CutPolicy

EXPLANATION = ("static analysis (MIR abstract interpretation): for each pool operation the status flag's true-edge cuts every "
               "path to any storage write or outgoing message; flag reads are enumerated per message variant (non-interference); "
               "the toggle wires each flag to its same-named field of the same pool; new pools start enabled")
ASSUMPTIONS = ["single-asset deposits swap through the public Swap message (checked in C14), hence through the swap cut",
               "CosmWasm VM rollback on Err"]
TECHNIQUE = "static analysis: guard cut-sets per operation, flag-read enumeration, field-agreement of the toggle, per-flag persistence under assumed request shape"
LEVEL_TEXT = ("For every way of swapping / depositing / withdrawing (message variants, router hops, internal self-calls are public "
              "messages) all paths to an effect cross the matching status flag's true edge read from the same pool key; each flag is "
              "read only by its own operation; exhaustive over paths and variants.")
LEVEL_NOTE = "Not decided: equality of outputs 'exactly as before' (follows from non-dependence on the other flags)."

FLAG = {"swaps_enabled": PredTrue("status.swaps_enabled", data_test(r"^Store\(POOLS\)\.status\.swaps_enabled$")),
        "deposits_enabled": PredTrue("status.deposits_enabled", data_test(r"^Store\(POOLS\)\.status\.deposits_enabled$")),
        "withdrawals_enabled": PredTrue("status.withdrawals_enabled", data_test(r"^Store\(POOLS\)\.status\.withdrawals_enabled$"))}
OPS = {("Swap",): "swaps_enabled", ("ExecuteSwapOperations",): "swaps_enabled",
       ("ProvideLiquidity",): "deposits_enabled", ("WithdrawLiquidity",): "withdrawals_enabled"}
KEYS = {("Swap",): r"^msg\.Swap\.pool_identifier$",
        ("ExecuteSwapOperations",): r"^msg\.ExecuteSwapOperations\.operations\[\*\]\.MantraSwap\.pool_identifier$",
        ("ProvideLiquidity",): r"^msg\.ProvideLiquidity\.pool_identifier$",
        ("WithdrawLiquidity",): r"^msg\.WithdrawLiquidity\.pool_identifier$"}
FLOORS = {"CUT-status": 4, "NONDEP-flag-reads": 7, "AGREE-toggle": 3, "KEY-same-pool": 4}


def run(W, chk):
    paths, _ = W.variant_paths("pool_manager", "execute")
    for vp in paths:
        A = W.run("pool_manager", "execute", vp)
        reads = status_reads(A)
        want = {OPS[vp]} if vp in OPS else set()
        chk.expect(reads == want, "NONDEP-flag-reads", "/".join(vp),
                   "status flags read: %s" % sorted(reads),
                   "operation reads status flags %s, expected exactly %s (an operation must depend on its own switch only)" %
                   (sorted(reads), sorted(want)), A.entry)
        if vp in OPS:
            # every POOLS access of the operation uses the operation's own pool key
            bad = []
            n = 0
            for e in A.reads() + A.writes():
                if e.extra.get("item") != "POOLS":
                    continue
                n += 1
                k = e.extra.get("key", EMPTY)
                ko = {o for (o, ops) in flat_atoms(k)}
                if not ko or not all(re.search(KEYS[vp], o) or o == "Store(POOLS).pool_identifier" for o in ko):
                    bad.append((e, ko))
            chk.expect(not bad and n > 0, "KEY-same-pool", "/".join(vp), "%d POOLS accesses, all keyed by the request's pool" % n,
                       "POOLS accessed with another key: %s" % [sorted(b[1]) for b in bad][:3],
                       where(bad[0][0]) if bad else A.entry)
    for vp, flag in sorted(OPS.items()):
        no_effects(chk, W, "CUT-status", "pool_manager", vp, [FLAG[flag]], "", effects=pool_effects)
    # reply (second leg of the single-asset deposit) re-enters through the public ProvideLiquidity message
    A = W.run("pool_manager", "reply", None)
    calls = A.calls(r"cosmwasm_std::wasm_execute$")
    ok = bool(calls) and all(set(x for x in (vget_variant(e.extra["dargs"][1]))) == {"ProvideLiquidity"} for e in calls)
    chk.expect(ok, "WHO-reply-reenters-public", "pool_manager::reply",
               "reply only re-enters through ExecuteMsg::ProvideLiquidity (and is therefore cut by deposits_enabled)",
               "reply issues other self-calls: %s" % [sorted(vget_variant(e.extra["dargs"][1])) for e in calls], A.entry)
    chk.expect(not pool_writes(A), "WHO-reply-no-pool-write", "pool_manager::reply", "reply does not write POOLS itself",
               "reply writes POOLS directly", A.entry)

    # ---- toggle wiring
    A = W.run("pool_manager", "execute", ("UpdateConfig",))
    pw = pool_writes(A)
    if not pw:
        chk.fail("AGREE-toggle", "UpdateConfig", "POOLS.save not found in UpdateConfig (anchor)", A.entry)
    for e in pw:
        val = e.extra.get("value", EMPTY)
        st = val.fields.get("status")
        for flag in ("swaps_enabled", "deposits_enabled", "withdrawals_enabled"):
            f = st.fields.get(flag) if st is not None else None
            o = all_origins(f) if f is not None else set()
            want = {"Store(POOLS).status.%s" % flag, "msg.UpdateConfig.feature_toggle.%s" % flag}
            chk.expect(f is not None and o <= want and ("msg.UpdateConfig.feature_toggle.%s" % flag) in o and
                       not any(ops for (oo, ops) in flat_atoms(f)),
                       "AGREE-toggle", flag, "status.%s <- feature_toggle.%s (exact)" % (flag, flag),
                       "status.%s is written from %s" % (flag, sorted(o)), where(e))
        ko = all_origins(e.extra.get("key", EMPTY))
        lk = set()
        for r in A.reads():
            if r.extra.get("item") == "POOLS":
                lk |= all_origins(r.extra.get("key", EMPTY))
        chk.expect(ko == {"Store(POOLS).pool_identifier"} and lk == {"msg.UpdateConfig.feature_toggle.pool_identifier"},
                   "KEY-toggle-same-pool", "UpdateConfig", "toggle loads feature_toggle.pool_identifier and saves under the loaded pool's own identifier",
                   "toggle loads %s saves under %s" % (sorted(lk), sorted(ko)), where(e))

    # ---- each flag toggled on its own is persisted: with only that flag given (the other two absent) the pool is still saved,
    # with that flag taken from the request (a "changed" marker forgotten for one flag would silently drop the toggle)
    FLAGS = ("swaps_enabled", "deposits_enabled", "withdrawals_enabled")
    FT = r"^msg\.UpdateConfig\.feature_toggle"
    for flag in FLAGS:
        cuts = [VariantEdge("assume a feature toggle is given", FT + "$", ["None"]),
                VariantEdge("assume %s given" % flag, FT + r"\.%s$" % flag, ["None"])]
        cuts += [VariantEdge("assume %s absent" % g, FT + r"\.%s$" % g, ["Some"]) for g in FLAGS if g != flag]
        pol = CutPolicy(cuts)
        B = W.run("pool_manager", "execute", ("UpdateConfig",), pol)
        sv = [e for e in pool_writes(B) if ("msg.UpdateConfig.feature_toggle.%s" % flag) in all_origins(vfield(vfield(e.extra.get("value", EMPTY), "status"), flag))]
        found = sum(1 for c in cuts if c.name in pol.hits)
        if found < 3:
            chk.skip("PAIR-toggle-persisted", flag, "the three per-flag `if let Some(..)` decisions were not found in this shape")
            continue
        chk.expect(bool(sv), "PAIR-toggle-persisted", flag, "toggling only %s saves the pool with the new value" % flag,
                   "with only %s given, no POOLS.save carrying it is reachable: the toggle is silently dropped" % flag, B.entry)
    # ---- new pools start enabled
    A = W.run("pool_manager", "execute", ("CreatePool",))
    for e in pool_writes(A):
        st = e.extra.get("value", EMPTY).fields.get("status")
        vals = {f: const_of(st.fields[f]) if st is not None and f in st.fields else None
                for f in ("swaps_enabled", "deposits_enabled", "withdrawals_enabled")}
        chk.expect(all(v == "true" for v in vals.values()), "CONST-new-pool-enabled", "CreatePool",
                   "new pool status = all true", "new pool status is %s" % vals, where(e))


def pool_effects(A):
    """storage writes, plus outgoing messages carrying anything derived from pool state (a routed swap
    with zero hops - excluded by the non-empty check - would only hand the caller's own funds back)."""
    out = list(A.writes())
    for e in A.outflow_aggs() + A.outflow_calls():
        vals = e.vals if e.kind == "agg" else e.extra.get("dargs", [])
        if any(o.startswith("Store(POOLS)") or o.startswith("Query(") for v in vals for (o, ops) in A.I.flat(A.store, v)):
            out.append(e)
    return out


def vget_variant(msgv):
    from absint import tagvals
    out = set()
    for k in msgv.fields:
        if k.startswith("#v:") and "ExecuteMsg" in k:
            tv = tagvals(msgv, k)
            if tv:
                out |= tv
    return out
