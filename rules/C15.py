"""C15 - only authorised parties can perform privileged actions.

Decided: a complete matrix over (contract, execute variant) taken from the message enums as the
`execute` entry points dispatch on them.  For every privileged variant each required guard set,
taken alone, cuts every path from the entry to any storage write or outgoing message (so a
rejected sender changes nothing); the guards compare the right operands (`info.sender`);
ownership messages are forwarded to cw_ownable with `info.sender` and the untouched action;
no contract function touches raw storage, and no storage namespace collides with cw_ownable's.
"""
import re
from rules.common import (NONPAYABLE, ASSERT_OWNER, IS_OWNER, EQ, VariantEdge, no_effects, exact_origins,
                          all_origins, where, effects_signature, flat_atoms)

EXPLANATION = ("static analysis (abstract interpretation of rustc MIR, whole-program by inlining): for every "
               "(contract, execute variant) the guard cut-set rule is evaluated over all CFG paths of all "
               "functions reachable from the entry point; obligations = guard/cut instances, argument-wiring "
               "instances, namespace and raw-storage table entries")
ASSUMPTIONS = ["cw_ownable's own transition system (propose/accept/renounce) is trusted",
               "a message returning Err is rolled back by the CosmWasm VM",
               "semantics table for cosmwasm-std / cw-utils / cw-storage-plus calls (engine/sem.py)"]

POS_OWNER = EQ("eq(position.receiver,info.sender)", r"^Store\(POSITIONS\)\.receiver$", r"^info\.sender$")
SENDER_IS_PM = EQ("eq(info.sender,config.pool_manager_addr)", r"^info\.sender$", r"^Store\(CONFIG\)\.pool_manager_addr$")
SENDER_IS_RECV = EQ("eq(info.sender,validated msg receiver)", r"^info\.sender$",
                    r"^msg\.ManagePosition\.action\.Create\.receiver$")
RECV_NONE = VariantEdge("msg.receiver is None", r"^msg\.ManagePosition\.action\.Create\.receiver$", ["None"])
FARM_OWNER = EQ("eq(farm.owner,info.sender)", r"^Store\(FARMS\)\.owner$", r"^info\.sender$")

# the contract owner check, in any of the forms that compare the stored owner with info.sender
OWNER_EQ = EQ("eq(ownership.owner,info.sender)", r"^Store\(ownership\)\.owner$", r"^info\.sender$")
OWNER = [ASSERT_OWNER, IS_OWNER, OWNER_EQ]

# (contract, variant path) -> list of cut-sets; each cut-set alone must cut all effects
MATRIX = {
    ("pool_manager", ("UpdateConfig",)): [[NONPAYABLE], OWNER],
    ("pool_manager", ("UpdateOwnership",)): [[NONPAYABLE]],
    ("farm_manager", ("UpdateConfig",)): [[NONPAYABLE], OWNER],
    ("farm_manager", ("UpdateOwnership",)): [[NONPAYABLE]],
    ("epoch_manager", ("UpdateConfig",)): [[NONPAYABLE], OWNER],
    ("epoch_manager", ("UpdateOwnership",)): [[NONPAYABLE]],
    ("fee_collector", ("UpdateOwnership",)): [[NONPAYABLE]],
    ("farm_manager", ("ManageFarm", ".action", "Expand")): [[FARM_OWNER]],
    ("farm_manager", ("ManageFarm", ".action", "Close")): [[NONPAYABLE], [FARM_OWNER, IS_OWNER]],
    ("farm_manager", ("ManagePosition", ".action", "Create")): [[RECV_NONE, SENDER_IS_PM, SENDER_IS_RECV]],
    ("farm_manager", ("ManagePosition", ".action", "Expand")): [[POS_OWNER, SENDER_IS_PM]],
    ("farm_manager", ("ManagePosition", ".action", "Close")): [[NONPAYABLE], [POS_OWNER]],
    ("farm_manager", ("ManagePosition", ".action", "Withdraw")): [[NONPAYABLE], [POS_OWNER]],
    ("farm_manager", ("Claim",)): [[NONPAYABLE]],
}
UNPRIVILEGED = {
    ("pool_manager", ("CreatePool",)), ("pool_manager", ("ProvideLiquidity",)), ("pool_manager", ("Swap",)),
    ("pool_manager", ("WithdrawLiquidity",)), ("pool_manager", ("ExecuteSwapOperations",)),
    ("farm_manager", ("ManageFarm", ".action", "Create")),
}
FLOORS = {"CUT-auth": 20, "MATRIX-classified": 20, "ARG-assert_owner": 3, "ARG-update_ownership": 4,
          "CONST-namespace": 12}
CONTRACTS = ["pool_manager", "farm_manager", "epoch_manager", "fee_collector"]


def initial_owner(W, chk):
    """who becomes the owner at instantiation: the `owner` the deployer names when the instantiate message has such a field (the
    message reads msg.owner), otherwise the deployer; exactly one initialize_owner call per contract"""
    for c in CONTRACTS:
        A = W.run(c, "instantiate", None)
        calls = A.calls(r"cw_ownable::initialize_owner$")
        used = {o for e in A.events for v in e.vals for o in all_origins(v) if o == "msg.owner"}
        want = {"msg.owner"} if used else {"info.sender"}
        got = exact_origins(calls[0].extra["dargs"][2]) if calls and len(calls[0].extra.get("dargs", [])) > 2 else set()
        chk.expect(len(calls) == 1 and got == want, "PROV-initial-owner", c, "initial owner <- %s" % sorted(want),
                   "%d initialize_owner call(s); the initial owner is taken from %s although the instantiate message %s" % (
                       len(calls), sorted(got), "names an owner (msg.owner)" if used else "has no owner field"), where(calls[0]) if calls else A.entry)


def run(W, chk):
    from rules.common import borrow
    borrow(W, chk, "C08", {"CUT-expand-own-position", "CUT-lock-for-sender"}, "the pool manager acts as a delegate only for the position's owner")
    initial_owner(W, chk)
    # ---- matrix completeness
    for c in CONTRACTS:
        paths, _ = W.variant_paths(c, "execute")
        if c == "fee_collector" and not paths:
            paths = [("UpdateOwnership",)]
        for vp in paths:
            if (c, vp) in MATRIX or (c, vp) in UNPRIVILEGED:
                chk.ok("MATRIX-classified", "%s/%s" % (c, "/".join(vp)),
                       "privileged" if (c, vp) in MATRIX else "unprivileged by specification")
            else:
                chk.fail("MATRIX-classified", "%s/%s" % (c, "/".join(vp)),
                         "execute variant is not classified in the authorisation matrix (new message?)",
                         "%s::contract::execute" % c)
    for (c, vp) in list(MATRIX) + list(UNPRIVILEGED):
        paths, _ = W.variant_paths(c, "execute")
        if c == "fee_collector" and not paths:
            paths = [("UpdateOwnership",)]
        if vp not in paths:
            chk.fail("MATRIX-classified", "%s/%s" % (c, "/".join(vp)),
                     "matrix row has no matching execute variant (anchor missing)", "%s::contract::execute" % c)

    # ---- cut obligations
    for (c, vp), cutsets in sorted(MATRIX.items()):
        for cs in cutsets:
            no_effects(chk, W, "CUT-auth", c, vp, cs, "")

    # ---- argument wiring of the guards, and of the ownership delegation
    for c in CONTRACTS:
        paths, _ = W.variant_paths(c, "execute")
        if ("UpdateConfig",) in paths:
            A = W.run(c, "execute", ("UpdateConfig",))
            evs = A.calls(r"cw_ownable::assert_owner$")
            if not evs:
                chk.ok("ARG-assert_owner", c, "no assert_owner call (owner check is done another way; see CUT-auth)")
            for e in evs:
                snd = exact_origins(e.extra["dargs"][1]) if len(e.extra["dargs"]) > 1 else set()
                chk.expect(snd == {"info.sender"}, "ARG-assert_owner", c,
                           "assert_owner(storage, info.sender)",
                           "assert_owner is given %s instead of exactly info.sender" % sorted(
                               all_origins(e.extra["dargs"][1]) if len(e.extra["dargs"]) > 1 else []), where(e))
        A = W.run(c, "execute", ("UpdateOwnership",))
        evs = A.calls(r"cw_ownable::update_ownership$")
        if not evs:
            chk.fail("ARG-update_ownership", c, "cw_ownable::update_ownership is not reached from UpdateOwnership",
                     A.entry)
        for e in evs:
            da = e.extra["dargs"]
            snd = exact_origins(da[2]) if len(da) > 2 else set()
            act = exact_origins(da[3]) if len(da) > 3 else set()
            good = snd == {"info.sender"} and act == {"msg.UpdateOwnership.0"}
            chk.expect(good, "ARG-update_ownership", c,
                       "update_ownership(.., sender=info.sender, action=msg.UpdateOwnership.0)",
                       "ownership delegation is wired to sender=%s action=%s" % (sorted(snd), sorted(act)), where(e))
        # nothing but cw_ownable writes in UpdateOwnership
        others = [e for e in A.effects() if e.extra.get("item") != "ownership"]
        chk.expect(not others, "WHO-UpdateOwnership", c, "only cw_ownable touches state in UpdateOwnership",
                   "UpdateOwnership has other effects: %s" % effects_signature(A),
                   where(others[0]) if others else "")

    # ---- Claim pays info.sender only
    A = W.run("farm_manager", "execute", ("Claim",))
    sends = A.aggs(r"BankMsg::Send$")
    for e in sends:
        to = None
        for f, v in zip(e.extra["fields"], e.vals):
            if f == "to_address":
                to = A.d(v)
        o = exact_origins(to) if to is not None else set()
        chk.expect(o == {"info.sender"}, "PROV-claim-recipient", where(e).split(" ")[0].rsplit("/", 1)[-1],
                   "Claim sends rewards to exactly info.sender",
                   "Claim pays %s" % sorted(all_origins(to) if to is not None else []), where(e))
    if not sends:
        chk.fail("PROV-claim-recipient", "claim", "no BankMsg::Send found in Claim (anchor missing)", A.entry)

    raw_storage_and_namespaces(W, chk)


def raw_storage_and_namespaces(W, chk):
    # ---- WHO raw storage: no contract function calls Storage::set/remove directly (expected 0)
    n_calls = 0
    for c in CONTRACTS:
        for b in W.F.fns(c):
            for blk in b.blocks:
                t = blk["term"]
                if t["k"] != "call":
                    continue
                n_calls += 1
                nm = t.get("callee", "") + " " + t.get("resolved", "")
                if re.search(r"cosmwasm_std::Storage::(set|remove)\b", nm):
                    chk.fail("WHO-raw-storage", "%s" % b.id, "direct raw storage access `%s`" % t.get("callee"),
                             t.get("span", ""))
    chk.ok("WHO-raw-storage", "all-contract-calls", "%d call sites scanned, none is Storage::set/remove" % n_calls)

    # ---- CONST namespaces
    ns = {}
    for c in CONTRACTS:
        for b in W.F.fns(c):
            if b.kind != "const":
                continue
            for blk in b.blocks:
                t = blk["term"]
                if t["k"] == "call" and re.search(r"cw_storage_plus::(Item|Map|IndexedMap|MultiIndex|UniqueIndex|"
                                                  r"SnapshotMap|SnapshotItem|IndexedSnapshotMap)::<.*>::new$|"
                                                  r"cw_storage_plus::\w+::new$", re.sub(r"<[^<>]*>", "<>", t.get("callee", ""))):
                    lits = [a["text"].strip() for a in t["args"] if a["k"] == "const" and a["text"].strip().startswith('"')]
                    kind = re.sub(r"<.*", "", t.get("callee", "")).split("::")[-1] if "::new" not in t.get("callee", "") \
                        else t.get("callee", "").split("::")[1].split("<")[0]
                    for i, l in enumerate(lits):
                        # MultiIndex::new(fn, pk_namespace, idx_namespace): the pk namespace repeats the map's
                        role = "pk" if ("MultiIndex" in t.get("callee", "") and i == 0 and len(lits) == 2) else "own"
                        ns.setdefault((c, l.strip('"')), []).append((b.id, role))
    for (c, l), users in sorted(ns.items()):
        owners = sorted({u for (u, role) in users if role == "own"})
        inst = "%s:%s" % (c, l)
        if l in ("ownership", "contract_info"):
            chk.fail("CONST-namespace", inst, "storage namespace collides with cw_ownable / cw2", owners[0])
            continue
        roots = {re.sub(r"::\{.*", "", o) for o in owners}
        if len(roots) > 1:
            # reasoned exception: the v1.3.0 migration deliberately re-reads "pools" with the old layout
            def _local(r):
                o = W.F.get(r.rsplit("::", 1)[0]) if "::" in r else None
                return o is not None and o.kind == "fn"
            if sum(1 for r in roots if not _local(r)) == 1 and l in ("pools", "pools__lp_asset"):
                chk.ok("CONST-namespace", inst, "shared only with an old-layout item declared inside a migration function (deliberate)")
                continue
            chk.fail("CONST-namespace", inst, "namespace used by several storage items: %s" % sorted(roots), owners[0])
        else:
            chk.ok("CONST-namespace", inst, "unique within the contract (%s)" % sorted(roots)[0].split("::", 1)[-1])

TECHNIQUE = "static analysis: MIR abstract interpretation, guard cut-sets per message variant (authorisation matrix), argument provenance, namespace table"
LEVEL_TEXT = ("Structural proof obligations over the type-checked program: for each privileged (contract, message variant) every "
              "path from the entry point to any storage write or outgoing message crosses the success edge of each required guard "
              "(nonpayable, assert_owner, owner/receiver equality with info.sender); exhaustive over CFG paths and message variants; "
              "an unclassified variant is a violation.")
LEVEL_NOTE = ("Trusted: cw_ownable's internal transition system, CosmWasm rollback on Err, semantics table of external calls. "
              "Not decided: behaviour of cw_ownable itself (pending-owner acceptance, expiry).")
