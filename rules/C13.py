"""C13 - price protections are enforced (structural part)."""
import re
from rules.common import (opmap, PredTrue, PredFalse, TryOk, VariantEdge, no_effects, where, flat_atoms, all_origins, exact_origins, ops_of, show,
                          origin_match, field_val, pool_writes, effects_signature)
from base import CutPolicy, rel_sign
from absint import EMPTY, V, vfield, tagvals, const_of

EXPLANATION = ("static analysis (MIR abstract interpretation): the swap tolerance reaches both comparisons only as "
               "min(unwrap_or(caller value, DEFAULT 0.01), MAX 0.5) and only on the side where a larger tolerance can only turn reject into "
               "accept; in the belief-price branch the shortfall is expected minus return (operand roles) over expected; the deposit "
               "tolerance enters as (1 - tolerance) multiplying the deposit ratio on the greater side of a reject (constant product) or "
               "as the bound itself (stableswap), tolerances above 1 are refused; every swap path passes assert_max_slippage before the "
               "pool is written; the routed swap's final transfer is cut by the minimum_receive comparison on the amount actually sent")
ASSUMPTIONS = ["that the measured quantity is the documented one is a value-range fact and is NOT decided (stableswap spread under mixed decimals, "
               "stableswap deposit tolerance comparing a ratio >= 1 with a tolerance <= 1: both reported by the property text, out of reach)",
               "index-level mistakes inside a comparison (pools[0] vs pools[1]) are not visible to origin-level provenance"]
TECHNIQUE = "static analysis: monotonicity by operator polarity (operand roles), constant/default/cap provenance, guard cut-sets, constant-position agreement of ratios, field agreement of tolerances on the single-sided path"
LEVEL_TEXT = "Structural obligations over all paths of assert_max_slippage, assert_slippage_tolerance, Swap, ExecuteSwapOperations, ProvideLiquidity."
LEVEL_NOTE = "Not decided: what is measured (numeric); boundary equality; per-index operand selection."
PM = "pool_manager"
TOL = {'Const("0.01")', 'Const("0.5")', "max_slippage"}
FLOORS = {"POLAR-swap-tolerance": 2, "CUT-slippage-before-write": 4}


def cmp_preds(A, closures=False):
    """every `>`-shaped comparison of the analysis, canonicalised: (event, greater side, smaller side, strict, reject_on)
    where the comparison reads `greater > smaller` (or >=) when it holds.  closures=True: also comparisons returned by a
    closure (`opt.filter(|m| balance < *m)`), which decide through the combinator's result."""
    from base import rel_atoms
    out = []
    evs = list(A.switches())
    if closures:
        evs += [e for e in A.events if e.kind == "invoke" and e.vals and e.vals[0] is not None]
    for e in evs:
        for (n, a, pos) in rel_atoms(e.vals[0]):
            x, y = a[0], a[1]
            if n in ("gt", "ge"):
                g, sm = x, y
            else:
                g, sm = y, x
            out.append((e, g, sm, n in ("gt", "lt"), pos))
    return out


def run(W, chk):
    from rules import swapcore as sc
    sc.N.bind(W)
    C = sc.N.C
    d = W.F.const_literal("pool_manager::swap::perform_swap::DEFAULT_SLIPPAGE")
    m = W.F.const_literal("pool_manager::swap::perform_swap::MAX_ALLOWED_SLIPPAGE")
    if d is None or m is None:
        # constants moved: look the literals up wherever they are declared
        lits = {W.F.const_literal(b.id) for b in W.F.fns(PM) if b.kind == "const"}
        chk.expect('"0.01"' in lits and '"0.5"' in lits, "CONST-slippage", "DEFAULT/MAX", "default 0.01, cap 0.5 declared", "slippage constants 0.01 / 0.5 not found", "")
    else:
        chk.expect(d == '"0.01"' and m == '"0.5"', "CONST-slippage", "DEFAULT/MAX", "default 0.01, cap 0.5", "DEFAULT_SLIPPAGE=%s MAX_ALLOWED_SLIPPAGE=%s" % (d, m), "")

    # ---------------- swap tolerance, analysed from the Swap entry point with the swap computation as a cut point
    A = W.run(PM, "execute", ("Swap",), CutPolicy([], opaque=[sc.N.CS]))
    TOLS = {'Const("0.01")', 'Const("0.5")', "msg.Swap.max_slippage"}
    tol = [(e, g, sm, strict, pos) for (e, g, sm, strict, pos) in cmp_preds(A) if 'Const("0.5")' in opmap(sm) or 'Const("0.5")' in opmap(g)]
    # a comparison of the tolerance's own ingredients with each other is a hand-written clamp (`if requested < cap { requested } else
    # { cap }`), not a use of the tolerance: the `min` operator requirement then becomes best effort (the branch/value correlation of a
    # hand-written clamp is not decided), the side and strictness of the two real comparisons are still checked
    clamp = [t for t in tol if set(opmap(t[1])) <= TOLS and set(opmap(t[2])) <= TOLS]
    tol = [t for t in tol if t not in clamp]
    chk.expect(len(tol) == 2, "POLAR-swap-tolerance", "anchor", "two comparisons involve the capped tolerance (belief price, spread)",
               "%d comparisons involve the 0.5 cap" % len(tol), A.entry)
    for (e, g, sm, strict, pos) in tol:
        gm, smm = opmap(g), opmap(sm)
        okr = set(smm) == TOLS and (all(ops == frozenset(["min"]) for ops in smm.values()) or (clamp and all(ops <= frozenset(["min"]) for ops in smm.values()))) \
            and not (set(gm) & TOLS) and strict
        chk.expect(okr, "POLAR-swap-tolerance", "bb%d" % e.bb,
                   "reject iff measured > min(max_slippage or 0.01, 0.5): the tolerance sits on the smaller side of a strict reject, through unwrap_or and min only",
                   "tolerance comparison is %s > %s (strict %s)" % ({k: sorted(v) for k, v in gm.items()}, {k: sorted(v) for k, v in smm.items()}, strict), where(e))
    bel = [t for t in tol if "msg.Swap.belief_price" in opmap(t[1])]
    spr = [t for t in tol if "msg.Swap.belief_price" not in opmap(t[1])]
    for (e, g, sm, strict, pos) in bel:
        lhs = opmap(g)
        ok = "sub:l" in lhs.get("info.funds[*].amount", ()) and "sub:r" in lhs.get(C + ".return_amount", ()) and "sub:l" not in lhs.get(C + ".return_amount", ()) \
            and "div:r" in lhs.get("info.funds[*].amount", ()) and "div:r" in lhs.get("msg.Swap.belief_price", ())
        chk.expect(ok, "POLAR-belief-shortfall", "belief branch", "(expected - return) / expected with expected = offer / belief_price",
                   "belief-price slippage is computed as %s" % {k: sorted(v) for k, v in lhs.items()}, where(e))
    def _ret_vs_expected(a, b):
        return exact_origins(a) == {C + ".return_amount"} and not ops_of(a) and {"info.funds[*].amount", "msg.Swap.belief_price"} <= set(opmap(b))
    # `return < expected` guarding the check, or its complement `return >= expected` leaving early
    exp_guard = [(e, g, sm) for (e, g, sm, strict, pos) in cmp_preds(A) if _ret_vs_expected(sm, g) or _ret_vs_expected(g, sm)]
    chk.expect(len(bel) == 1 and len(exp_guard) >= 1, "POLAR-belief-shortfall", "guard", "only a return below offer/belief_price can be rejected",
               "belief guard `return < expected` not found (%d belief comparisons, %d guards)" % (len(bel), len(exp_guard)), A.entry)
    for (e, g, sm, strict, pos) in spr:
        lhs = opmap(g)
        ok = set(lhs) == {C + ".slippage_amount", C + ".return_amount"} and "div:l" in lhs[C + ".slippage_amount"] and "div:r" in lhs[C + ".return_amount"] \
            and "div:r" in lhs[C + ".slippage_amount"]
        chk.expect(ok, "POLAR-spread", "spread branch", "spread / (return + spread) > tolerance rejects", "spread ratio computed as %s" % {k: sorted(v) for k, v in lhs.items()}, where(e))

    # ---------------- the slippage verdict is must-pass-through for the pool write
    def tol_accept(src):
        def test(pn, pa):
            # `measured > tolerance` : assume it false (keep only the accept edge) => used with PredTrue to remove the accept edge
            s = rel_sign(pn, pa, lambda v: 'Const("0.5")' not in opmap(v), ">", lambda v: 'Const("0.5")' in opmap(v) and src in opmap(v))
            return -s if s else 0      # the guard is `not (measured > tol)`
        return test
    below = lambda src_ret: (lambda pn, pa: -rel_sign(pn, pa, lambda v: exact_origins(v) == {src_ret}, "<", lambda v: "info.funds[*].amount" in opmap(v)) or 0)  # noqa: E731
    for vp, src, bp in ((("Swap",), "msg.Swap.max_slippage", r"^msg\.Swap\.belief_price$"), (("ExecuteSwapOperations",), "msg.ExecuteSwapOperations.max_slippage", None)):
        cuts = [PredTrue("within tolerance", tol_accept(src))]
        extra = [VariantEdge("assume no belief price", bp, ["Some"])] if bp else []
        no_effects(chk, W, "CUT-slippage-before-write", PM, vp, cuts, " [spread]", effects=pool_writes, extra=extra, opaque=[sc.N.CS])
    cuts = [PredTrue("within tolerance", tol_accept("msg.Swap.max_slippage")), PredTrue("return >= expected", below(C + ".return_amount"))]
    no_effects(chk, W, "CUT-slippage-before-write", PM, ("Swap",), cuts, " [belief price]", effects=pool_writes,
               extra=[VariantEdge("assume belief price", r"^msg\.Swap\.belief_price$", ["None"])], opaque=[sc.N.CS])

    # ---------------- deposit tolerance, analysed from ProvideLiquidity
    P = W.run(PM, "execute", ("ProvideLiquidity",))
    T = "msg.ProvideLiquidity.liquidity_max_slippage"
    dg = [t for t in cmp_preds(P) if T in opmap(t[1]) or T in opmap(t[2])]
    above1 = [t for t in dg if exact_origins(t[1]) == {T} and exact_origins(t[2]) == {"Const(1)"}]
    cp = [t for t in dg if T in opmap(t[1]) and t not in above1]
    ss = [t for t in dg if exact_origins(t[2]) == {T}]
    chk.expect(len(above1) == 1 and len(cp) == 2 and len(ss) == 1, "POLAR-deposit-tolerance", "anchor", "`tolerance > 1`, 2 constant-product and 1 stableswap comparison",
               "deposit tolerance comparisons found: >1 %d, cp %d, ss %d" % (len(above1), len(cp), len(ss)), P.entry)
    for (e, g, sm, strict, pos) in cp:
        lhs, rhs = opmap(g), opmap(sm)
        t = lhs.get(T, frozenset())
        ok = {"sub:r", "mul"} <= t and "sub:l" not in t and T not in rhs and "info.funds[*].amount" in lhs and "Store(POOLS).assets[*].amount" in rhs and strict \
            and "info.funds[*].amount" not in rhs      # measured against the pool before the deposit, not after it
        chk.expect(ok, "POLAR-deposit-tolerance", "cp.bb%d" % e.bb, "reject iff deposit_ratio * (1 - tolerance) > pool_ratio (larger tolerance never rejects more)",
                   "constant-product deposit check is %s > %s" % ({k: sorted(v) for k, v in lhs.items()}, {k: sorted(v) for k, v in rhs.items()}), where(e))
    # both orientations of the price are checked, and for the same orientation on both sides: when the ratios are built from
    # constant positions (x[0]/x[1]), the deposit ratios and the pool ratios use the same set of (numerator, denominator) positions
    from rules.common import positions
    dep_r, pool_r = set(), set()
    for e in P.calls(r"Decimal256::(from_ratio|checked_from_ratio)$"):
        a, b = e.extra["dargs"][0], e.extra["dargs"][1]
        pa_, pb_ = positions(a), positions(b)
        if len(pa_) != 1 or len(pb_) != 1:
            continue
        oa, ob = exact_origins(a), exact_origins(b)
        if oa == ob == {"info.funds[*].amount"}:
            dep_r.add((min(pa_), min(pb_)))
        elif oa == ob == {"Store(POOLS).assets[*].amount"} and all_origins(a) | all_origins(b) == {"Store(POOLS).assets[*].amount"}:
            pool_r.add((min(pa_), min(pb_)))
    if dep_r or pool_r:
        chk.expect(dep_r == pool_r and all(a != b for (a, b) in dep_r), "AGREE-deposit-ratio-orientation", "constant product",
                   "deposit ratios and pool ratios are taken at the same positions: %s" % sorted(dep_r),
                   "deposit ratios use positions %s but pool ratios use %s" % (sorted(dep_r), sorted(pool_r)), P.entry)
    else:
        chk.skip("AGREE-deposit-ratio-orientation", "constant product", "ratios are not built from constant positions")
    for (e, g, sm, strict, pos) in ss:
        lhs = opmap(g)
        ok = T not in lhs and not ops_of(sm) and strict
        chk.expect(ok, "POLAR-deposit-tolerance", "ss.bb%d" % e.bb, "reject iff measured > tolerance", "stableswap deposit check lhs %s" % sorted(lhs), where(e))
    # a tolerance above 1 on a funded pool is refused: with `tolerance > 1` assumed, no pool write
    multi = PredTrue("assume multi-asset", lambda pn, pa: pn == "eq" and origin_match(pa[0], r"^info\.funds\[\*\]$") and exact_origins(pa[1]) == {"Const(1_usize)"})
    gt1 = PredFalse("assume tolerance > 1", lambda pn, pa: rel_sign(pn, pa, lambda v: exact_origins(v) == {T}, ">", lambda v: exact_origins(v) == {"Const(1)"}))
    some = VariantEdge("assume tolerance given", r"^msg\.ProvideLiquidity\.liquidity_max_slippage$", ["None"])
    from rules.common import pred_tree_has, zero_test
    _pool_zero = zero_test(lambda v: exact_origins(v) == {"Store(POOLS).assets[*].amount"})      # `amount == zero()` / `amount.is_zero()`
    funded = PredTrue("assume pool funded", lambda pn, pa: pn == "any" and origin_match(pa[0], r"^Store\(POOLS\)\.assets\[\*\]\.amount$", False) and
                      ("Const(0)" in all_origins(pa[0]) or pred_tree_has(pa[0], _pool_zero)))
    pol = CutPolicy([multi, gt1, some, funded])
    B = W.run(PM, "execute", ("ProvideLiquidity",), pol)
    chk.expect("assume tolerance > 1" in pol.hits and not pool_writes(B), "CUT-tolerance-above-1", "refused", "a tolerance above 1 on a funded pool never reaches the pool write",
               "a deposit tolerance > 1 can be accepted (guard found %s)" % ("assume tolerance > 1" in pol.hits), B.entry)
    # each accept side of the deposit comparisons is must-pass-through (given a tolerance, a funded pool, multi-asset)
    def dep_test(pn, pa):
        if len(pa) < 2 or not hasattr(pa[0], "atoms") or not hasattr(pa[1], "atoms"):
            return 0
        inv = T in opmap(pa[0]) or T in opmap(pa[1])
        one = exact_origins(pa[1]) == {"Const(1)"} or exact_origins(pa[0]) == {"Const(1)"}
        if not inv or one:
            return 0
        s_ = rel_sign(pn, pa, lambda v: True, ">", lambda v: T in opmap(v) or "Store(POOLS).assets[*].amount" in opmap(v))
        return -s_ if s_ else 0
    dep_ok = PredTrue("deposit within tolerance", dep_test)
    no_effects(chk, W, "CUT-slippage-before-write", PM, ("ProvideLiquidity",), [dep_ok], " [deposit]", effects=pool_writes, extra=[multi, some, funded])

    # ---------------- the caller's tolerances on the single-sided path: each leg is protected by the tolerance given for it
    BUF = "Store(SINGLE_SIDE_LIQUIDITY_PROVISION_BUFFER).liquidity_provision_data."
    legs = [e for e in P.calls(r"cosmwasm_std::wasm_execute$") if tagvals(e.extra["dargs"][1], "#v:mantra_dex_std::pool_manager::ExecuteMsg") == {"Swap"}]
    for e in legs:
        ms = vfield(vfield(e.extra["dargs"][1], "Swap"), "max_slippage")
        chk.expect(exact_origins(ms) == {"msg.ProvideLiquidity.swap_max_slippage"} and not ops_of(ms), "AGREE-single-sided-tolerances", "swap leg",
                   "swap leg max_slippage <- swap_max_slippage", "swap leg max_slippage <- %s" % sorted(all_origins(ms)), where(e))
    for e in [x for x in P.writes() if x.extra.get("item") == "SINGLE_SIDE_LIQUIDITY_PROVISION_BUFFER" and x.extra.get("sop") == "save"]:
        for f in ("swap_max_slippage", "liquidity_max_slippage"):
            fo = vfield(vfield(e.extra.get("value", EMPTY), "liquidity_provision_data"), f)
            chk.expect(exact_origins(fo) == {"msg.ProvideLiquidity." + f} and not ops_of(fo), "AGREE-single-sided-tolerances", "buffer." + f,
                       "kept as given", "buffer.%s <- %s" % (f, sorted(all_origins(fo))), where(e))
    RP = W.run(PM, "reply", None)
    for e in RP.calls(r"cosmwasm_std::wasm_execute$"):
        pl = vfield(e.extra["dargs"][1], "ProvideLiquidity")
        for f in ("swap_max_slippage", "liquidity_max_slippage"):
            fo = vfield(pl, f)
            chk.expect(exact_origins(fo) == {BUF + f} and not ops_of(fo), "AGREE-single-sided-tolerances", "deposit leg." + f,
                       "deposit leg %s <- the caller's %s" % (f, f), "deposit leg %s <- %s" % (f, sorted(all_origins(fo))), where(e))
    # ---------------- minimum_receive
    X = W.run(PM, "execute", ("ExecuteSwapOperations",), CutPolicy([], opaque=[sc.N.CS]))
    MR = "msg.ExecuteSwapOperations.minimum_receive"
    mr = [t for t in cmp_preds(X, closures=True) if exact_origins(t[1]) == {MR} or exact_origins(t[2]) == {MR}]
    final = [e for e in X.aggs(r"BankMsg::Send$") if "msg.ExecuteSwapOperations.receiver" in all_origins(X.d(field_val(e, "to_address")))]
    ok = len(mr) == 1 and len(final) == 1
    if ok:
        other = mr[0][2] if exact_origins(mr[0][1]) == {MR} else mr[0][1]
        sent = set(flat_atoms(X.d(vfield(vfield(field_val(final[0], "amount"), "[*]"), "amount"))))
        ok = set(flat_atoms(other)) == sent and exact_origins(mr[0][1]) == {MR} and mr[0][3]
    chk.expect(ok, "CUT-minimum-receive", "compared value", "reject iff minimum_receive > the amount that is sent",
               "minimum_receive comparison: %s" % [(show(t[1])[:120], show(t[2])[:120], t[3]) for t in mr], where(mr[0][0]) if mr else X.entry)
    cut = PredTrue("received >= minimum_receive", lambda pn, pa: rel_sign(pn, pa, lambda v: exact_origins(v) != {MR}, ">=", lambda v: exact_origins(v) == {MR}))
    some = VariantEdge("assume minimum_receive given", r"^msg\.ExecuteSwapOperations\.minimum_receive$", ["None"])

    def final_send(Y):
        return [e for e in Y.aggs(r"BankMsg::Send$") if "msg.ExecuteSwapOperations.receiver" in all_origins(Y.d(field_val(e, "to_address")))]
    no_effects(chk, W, "CUT-minimum-receive", PM, ("ExecuteSwapOperations",), [cut], " [given minimum_receive]", effects=final_send, extra=[some])
