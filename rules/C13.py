"""C13 - price protections are enforced (structural part)."""
import re
from rules.common import (opmap, PredTrue, PredFalse, TryOk, VariantEdge, no_effects, where, flat_atoms, all_origins, exact_origins, ops_of, show,
                          origin_match, field_val, pool_writes, effects_signature)
from base import CutPolicy
from absint import EMPTY, V, vfield, tagvals, const_of

EXPLANATION = ("static analysis (MIR abstract interpretation): the swap tolerance reaches both comparisons only as "
               "min(unwrap_or(caller value, DEFAULT 0.01), MAX 0.5) and only on the side where a larger tolerance can only turn reject into "
               "accept; in the belief-price branch the shortfall is expected minus return (operand roles) over expected; the deposit "
               "tolerance enters as (1 - tolerance) multiplying the deposit ratio on the greater side of a reject (constant product) or "
               "as the bound itself (stableswap), tolerances above 1 are refused; every swap path passes assert_max_slippage before the "
               "pool is written; the routed swap's final transfer is cut by the minimum_receive comparison on the amount actually sent")
ASSUMPTIONS = ["that the measured quantity is the documented one is a value-range fact and is NOT decided (stableswap spread under mixed decimals, "
               "stableswap deposit tolerance comparing a ratio >= 1 with a tolerance <= 1: both reported by the property text, out of reach)",
               "index-level mistakes inside a comparison (pools[0] vs pools[1]) are not visible to origin-level provenance"]
TECHNIQUE = "static analysis: monotonicity by operator polarity (operand roles), constant/default/cap provenance, guard cut-sets"
LEVEL_TEXT = "Structural obligations over all paths of assert_max_slippage, assert_slippage_tolerance, Swap, ExecuteSwapOperations, ProvideLiquidity."
LEVEL_NOTE = "Not decided: what is measured (numeric); boundary equality; per-index operand selection."
PM = "pool_manager"
TOL = {'Const("0.01")', 'Const("0.5")', "max_slippage"}
FLOORS = {"POLAR-swap-tolerance": 2, "CUT-slippage-before-write": 3}


def preds(A, fn_suffix, names):
    out = []
    for e in A.switches():
        if not e.fn.endswith(fn_suffix):
            continue
        for a in e.vals[0].atoms:
            if isinstance(a[0], tuple) and a[0][0] == "pred" and a[0][1] in names:
                out.append((e, a[0]))
    return out


def run(W, chk):
    d = W.F.const_literal("pool_manager::swap::perform_swap::DEFAULT_SLIPPAGE")
    m = W.F.const_literal("pool_manager::swap::perform_swap::MAX_ALLOWED_SLIPPAGE")
    chk.expect(d == '"0.01"' and m == '"0.5"', "CONST-slippage", "DEFAULT/MAX", "default 0.01, cap 0.5", "DEFAULT_SLIPPAGE=%s MAX_ALLOWED_SLIPPAGE=%s" % (d, m), "")
    H = W.run_fn("pool_manager::swap::perform_swap::assert_max_slippage")
    gts = preds(H, "assert_max_slippage", ("gt",))
    chk.expect(len(gts) == 2, "POLAR-swap-tolerance", "anchor", "two tolerance comparisons (belief price, spread)", "%d `>` comparisons in assert_max_slippage" % len(gts), H.entry)
    for (e, p) in gts:
        lhs, rhs = opmap(p[2]), opmap(p[3])
        okr = set(rhs) == TOL and all(ops == frozenset(["min"]) for ops in rhs.values())
        okl = not (set(lhs) & TOL)
        chk.expect(okr and okl, "POLAR-swap-tolerance", "bb%d" % e.bb,
                   "reject iff measured > min(max_slippage or 0.01, 0.5): the tolerance sits on the smaller side of a reject, through unwrap_or and min only",
                   "tolerance comparison is %s > %s" % ({k: sorted(v) for k, v in lhs.items()}, {k: sorted(v) for k, v in rhs.items()}), where(e))
    # belief-price branch: shortfall = expected - return, relative to expected
    bel = [(e, p) for (e, p) in gts if "belief_price" in opmap(p[2])]
    for (e, p) in bel:
        lhs = opmap(p[2])
        ok = "sub:l" in lhs.get("offer_amount", ()) and "sub:r" in lhs.get("return_amount", ()) and "sub:l" not in lhs.get("return_amount", ()) \
            and "div:r" in lhs.get("offer_amount", ()) and "div:r" in lhs.get("belief_price", ())
        chk.expect(ok, "POLAR-belief-shortfall", "belief branch", "(expected - return) / expected with expected = offer / belief_price",
                   "belief-price slippage is computed as %s" % {k: sorted(v) for k, v in lhs.items()}, where(e))
    lt = [(e, p) for (e, p) in preds(H, "assert_max_slippage", ("lt",)) if exact_origins(p[2]) == {"return_amount"}]
    chk.expect(len(bel) == 1 and len(lt) == 1 and {"offer_amount", "belief_price"} <= set(opmap(lt[0][1][3])), "POLAR-belief-shortfall", "guard",
               "only a return below offer/belief_price can be rejected", "belief guard not found (%d, %d)" % (len(bel), len(lt)), H.entry)
    spr = [(e, p) for (e, p) in gts if "belief_price" not in opmap(p[2])]
    for (e, p) in spr:
        lhs = opmap(p[2])
        ok = set(lhs) == {"slippage_amount", "return_amount"} and "div:l" in lhs["slippage_amount"] and "div:r" in lhs["return_amount"] and "div:r" in lhs["slippage_amount"]
        chk.expect(ok, "POLAR-spread", "spread branch", "spread / (return + spread) > tolerance rejects", "spread ratio computed as %s" % {k: sorted(v) for k, v in lhs.items()}, where(e))
    # cutting both comparisons' reject edges is not needed; instead: assert_max_slippage success is must-pass-through for the pool write
    g = [TryOk(r"swap::perform_swap::assert_max_slippage$")]
    no_effects(chk, W, "CUT-slippage-before-write", PM, ("Swap",), g, "", effects=pool_writes)
    no_effects(chk, W, "CUT-slippage-before-write", PM, ("ExecuteSwapOperations",), g, "", effects=pool_writes)
    # the caller's tolerance and belief price reach it unchanged
    for vp, src, bp in ((("Swap",), "msg.Swap.max_slippage", {"msg.Swap.belief_price"}), (("ExecuteSwapOperations",), "msg.ExecuteSwapOperations.max_slippage", set())):
        A = W.run(PM, "execute", vp, CutPolicy([], opaque=["pool_manager::helpers::compute_swap"]))
        for e in A.calls_id(r"assert_max_slippage$"):
            da = e.extra["dargs"]
            ok = exact_origins(da[1]) == {src} and exact_origins(da[0]) == bp and exact_origins(da[3]) == {"Call(helpers::compute_swap).return_amount"} \
                and exact_origins(da[4]) == {"Call(helpers::compute_swap).slippage_amount"}
            chk.expect(ok, "AGREE-slippage-args", "/".join(vp), "assert_max_slippage(belief, caller tolerance, offer, computed return, computed spread)",
                       "assert_max_slippage args: belief %s tol %s return %s spread %s" % (sorted(all_origins(da[0])), sorted(all_origins(da[1])), sorted(all_origins(da[3])), sorted(all_origins(da[4]))), where(e))

    # ---- deposit tolerance
    D = W.run_fn("pool_manager::helpers::assert_slippage_tolerance")
    dg = preds(D, "assert_slippage_tolerance", ("gt",))
    above1 = [(e, p) for (e, p) in dg if exact_origins(p[2]) == {"slippage_tolerance"} and exact_origins(p[3]) == {"Const(1)"}]
    chk.expect(len(above1) == 1, "CUT-tolerance-above-1", "anchor", "`tolerance > 1` comparison present", "%d `tolerance > 1` comparisons" % len(above1), D.entry)
    pol = CutPolicy([PredFalse("assume tolerance > 1", lambda pn, pa: pn == "gt" and exact_origins(pa[0]) == {"slippage_tolerance"} and exact_origins(pa[1]) == {"Const(1)"}),
                     VariantEdge("assume tolerance given", r"^slippage_tolerance$", ["None"]),
                     PredTrue("assume pool funded", lambda pn, pa: pn == "any")])
    D2 = W.run_fn("pool_manager::helpers::assert_slippage_tolerance", policy=pol)
    tv = tagvals(D2.ret, "#v:std::result::Result") if D2.ret is not None else {"Err"}
    chk.expect(tv == {"Err"}, "CUT-tolerance-above-1", "refused", "a tolerance above 1 on a funded pool always ends in Err", "tolerance > 1 can be accepted (%s)" % tv, D.entry)
    cp = [(e, p) for (e, p) in dg if "slippage_tolerance" in opmap(p[2]) and (e, p) not in above1]
    ss = [(e, p) for (e, p) in dg if exact_origins(p[3]) == {"slippage_tolerance"}]
    chk.expect(len(cp) == 2 and len(ss) == 1, "POLAR-deposit-tolerance", "anchor", "2 constant-product comparisons, 1 stableswap comparison",
               "deposit tolerance comparisons found: cp %d ss %d" % (len(cp), len(ss)), D.entry)
    for (e, p) in cp:
        lhs, rhs = opmap(p[2]), opmap(p[3])
        t = lhs.get("slippage_tolerance", frozenset())
        ok = {"sub:r", "mul"} <= t and "sub:l" not in t and "slippage_tolerance" not in rhs and "deposits[*].amount" in lhs and "pool_assets[*].amount" in rhs
        chk.expect(ok, "POLAR-deposit-tolerance", "cp.bb%d" % e.bb, "reject iff deposit_ratio * (1 - tolerance) > pool_ratio (larger tolerance never rejects more)",
                   "constant-product deposit check is %s > %s" % ({k: sorted(v) for k, v in lhs.items()}, {k: sorted(v) for k, v in rhs.items()}), where(e))
    for (e, p) in ss:
        lhs = opmap(p[2])
        ok = "slippage_tolerance" not in lhs and not ops_of(p[3])
        chk.expect(ok, "POLAR-deposit-tolerance", "ss.bb%d" % e.bb, "reject iff measured > tolerance", "stableswap deposit check lhs %s" % sorted(lhs), where(e))
    A = W.run(PM, "execute", ("ProvideLiquidity",))
    for e in A.calls_id(r"helpers::assert_slippage_tolerance$"):
        da = e.extra["dargs"]
        ok = exact_origins(da[0]) == {"msg.ProvideLiquidity.liquidity_max_slippage"} and all_origins(vfield(vfield(da[1], "[*]"), "amount")) == {"info.funds[*].amount"} \
            and all(o.startswith("Store(POOLS).assets") for o in all_origins(da[2])) and bool(all_origins(da[2])) \
            and all(o.startswith("Store(POOLS).pool_type") or o.startswith("Const(PoolType") for o in all_origins(da[3]))
        chk.expect(ok, "AGREE-slippage-args", "ProvideLiquidity", "assert_slippage_tolerance(caller tolerance, deposits, pool reserves, pool type)",
                   "assert_slippage_tolerance args: %s" % [sorted(all_origins(x))[:3] for x in da], where(e))
    multi = PredTrue("assume multi-asset", lambda pn, pa: pn == "eq" and origin_match(pa[0], r"^info\.funds\[\*\]$") and exact_origins(pa[1]) == {"Const(1_usize)"})
    no_effects(chk, W, "CUT-slippage-before-write", PM, ("ProvideLiquidity",), [TryOk(r"helpers::assert_slippage_tolerance$")], "", effects=pool_writes, extra=[multi])

    # ---- minimum_receive
    X = W.run(PM, "execute", ("ExecuteSwapOperations",), CutPolicy([], opaque=["pool_manager::helpers::compute_swap"]))
    mr = [(e, p) for (e, p) in preds(X, "execute_swap_operations", ("lt",)) if exact_origins(p[3]) == {"msg.ExecuteSwapOperations.minimum_receive"}]
    final = [e for e in X.aggs(r"BankMsg::Send$") if "msg.ExecuteSwapOperations.receiver" in all_origins(X.d(field_val(e, "to_address")))]
    ok = len(mr) == 1 and len(final) == 1
    if ok:
        sent = set(flat_atoms(X.d(vfield(vfield(field_val(final[0], "amount"), "[*]"), "amount"))))
        ok = set(flat_atoms(mr[0][1][2])) == sent
    chk.expect(ok, "CUT-minimum-receive", "compared value", "minimum_receive is compared with exactly the amount that is sent",
               "minimum_receive is compared with %s" % [show(p[2])[:200] for (e, p) in mr], where(mr[0][0]) if mr else X.entry)
    cut = PredFalse("received >= minimum_receive", lambda pn, pa: pn == "lt" and exact_origins(pa[1]) == {"msg.ExecuteSwapOperations.minimum_receive"})
    some = VariantEdge("assume minimum_receive given", r"^msg\.ExecuteSwapOperations\.minimum_receive$", ["None"])

    def final_send(A):
        return [e for e in A.aggs(r"BankMsg::Send$") if "msg.ExecuteSwapOperations.receiver" in all_origins(A.d(field_val(e, "to_address")))]
    no_effects(chk, W, "CUT-minimum-receive", PM, ("ExecuteSwapOperations",), [cut], " [given minimum_receive]", effects=final_send, extra=[some])
