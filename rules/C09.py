"""C09 - emergency exit penalty is bounded, decays to zero and is fully accounted for (structural part)."""
import re
from rules.common import (PredTrue, PredFalse, CallTrue, where, flat_atoms, all_origins, exact_origins, ops_of, show, origin_match,
                          pred_test, data_test, field_val)
from rules.C08 import EMERGENCY_FLAG, IS_EXPIRED_F, penalty_calls
from base import CutPolicy, dep_origins
from rules.common import rel, rel_sign, om, find_rel
from absint import EMPTY, vfield, tagvals, const_of

EXPLANATION = ("static analysis (MIR abstract interpretation): the penalty passes `min` with MAX_PENALTY_CAP (= 90%, constant-checked; share "
               "50%); `total_penalty_fee < amount` cuts every penalty message; penalty messages are reachable only with "
               "emergency_unlock == Some(true) and !is_expired; recipients are farm owners passing the active-farm filter or the fee "
               "collector; with no active farm owner the fee collector receives the same value as the total; round-down only; the "
               "penalty depends on time, expiry, duration, base penalty and amount")
ASSUMPTIONS = ["<= 90% as a number, monotone decay and the split inequality are arithmetic facts not decided here"]
TECHNIQUE = "static analysis: operator-class provenance (min/cap, rounding), guard cut-sets, recipient provenance, constants"
LEVEL_TEXT = "Structural obligations over all paths of ManagePosition::Withdraw and calculate_emergency_penalty."
LEVEL_NOTE = "Not decided: numeric bound, decay monotonicity, n*floor(x/n) <= x."
FM = "farm_manager"
WD = ("ManagePosition", ".action", "Withdraw")
FLOORS = {"CUT-penalty": 3, "PROV-penalty-recipient": 2}


def const_call(W, cid):
    b = W.F.get(cid)
    if b is None:
        return None
    for blk in b.blocks:
        t = blk["term"]
        if t["k"] == "call":
            return (t.get("callee", ""), [a.get("text") for a in t["args"]])
    return None


def run(W, chk):
    cap = const_call(W, "farm_manager::position::helpers::MAX_PENALTY_CAP")
    shr = const_call(W, "farm_manager::position::helpers::PENALTY_FEE_SHARE")
    chk.expect(cap is not None and cap[0].endswith("Decimal::percent") and cap[1] in (["const 90_u64"], ["90_u64"]), "CONST-penalty", "MAX_PENALTY_CAP",
               "Decimal::percent(90)", "MAX_PENALTY_CAP is %s" % (cap,), "")
    chk.expect(shr is not None and shr[0].endswith("Decimal::percent") and shr[1] in (["const 50_u64"], ["50_u64"]), "CONST-penalty", "PENALTY_FEE_SHARE",
               "Decimal::percent(50)", "PENALTY_FEE_SHARE is %s" % (shr,), "")
    H = W.run_fn("farm_manager::position::helpers::calculate_emergency_penalty")
    r = H.ret if H.ret is not None else EMPTY
    m = {}
    for (o, ops) in flat_atoms(r):
        m.setdefault(o, set()).update(ops)
    capo = m.get("Const(farm_manager::position::helpers::MAX_PENALTY_CAP)")
    chk.expect(capo is not None and all("min" in ops for o, ops in m.items() if not o.startswith("Const(")), "PROV-penalty-cap", "calculate_emergency_penalty",
               "returned penalty = min(computed, MAX_PENALTY_CAP)", "penalty is not capped by min(.., MAX_PENALTY_CAP): %s" % {k: sorted(v) for k, v in list(m.items())[:6]}, H.entry)
    need = {"position.expiring_at", "position.unlocking_duration", "position.lp_asset.amount", "base_emergency_penalty", "current_time"}
    chk.expect(need <= set(m), "DEP-penalty", "calculate_emergency_penalty", "penalty depends on remaining time, duration, amount (weight multiplier) and the base penalty",
               "penalty does not depend on %s" % sorted(need - set(m)), H.entry)
    allops = set().union(*m.values()) if m else set()
    chk.expect("div_ceil" not in allops and "wrap" not in allops, "ROUND-penalty", "calculate_emergency_penalty", "no round-up / wrapping operator",
               "penalty operator classes %s" % sorted(allops), H.entry)

    A = W.run(FM, "execute", WD)
    pc = penalty_calls(A)
    chk.expect(len(pc) == 2, "WHO-penalty-msgs", "Withdraw", "two penalty message sites (farm owners, fee collector)", "%d penalty message sites" % len(pc), A.entry)
    for e in pc:
        to = exact_origins(e.extra["dargs"][2])
        chk.expect(to in ({"Store(FARMS).owner"}, {"Store(CONFIG).fee_collector_addr"}), "PROV-penalty-recipient", "%s" % sorted(to),
                   "penalty goes to an active farm's owner or to the fee collector", "penalty recipient %s" % sorted(all_origins(e.extra["dargs"][2])), where(e))
        den = exact_origins(e.extra["dargs"][0])
        chk.expect(den == {"Store(POSITIONS).lp_asset.denom"}, "PROV-penalty-recipient", "denom:%s" % sorted(to), "paid in the position's LP denom", "penalty denom %s" % sorted(den), where(e))
        o2 = ops_of(e.extra["dargs"][1])
        chk.expect("div_ceil" not in o2, "ROUND-penalty", "share:%s" % sorted(to), "round-down only", "penalty share ops %s" % sorted(o2), where(e))
    uniq_owners(chk, A)
    # total < amount cuts all penalty messages
    AMT = r"^Store\(POSITIONS\)\.lp_asset\.amount$"
    is_total = lambda v: "Store(CONFIG).emergency_unlock_penalty" in all_origins(v)   # noqa: E731
    lt = PredTrue("total_penalty_fee < amount", lambda pn, pa: rel_sign(pn, pa, is_total, "<", om(AMT)))
    for nm, cut in (("penalty < amount", lt), ("emergency flag", EMERGENCY_FLAG), ("not yet expired", IS_EXPIRED_F)):
        pol = CutPolicy([cut])
        B = W.run(FM, "execute", WD, pol)
        p2 = penalty_calls(B)
        chk.expect(bool(pol.hits) and not p2, "CUT-penalty", nm, "no penalty message without `%s`" % cut.name,
                   "penalty messages reachable without `%s` (guard found %s)" % (cut.name, bool(pol.hits)), where(p2[0]) if p2 else B.entry)
    # active-farm filter
    filt = [e for e in A.events if e.kind == "invoke" and re.search(r"withdraw_position::\{closure#\d+\}$", e.name)]
    sw = [e for e in A.switches() if re.search(r"withdraw_position::\{closure#\d+\}$", e.fn)]
    has_start = bool(find_rel(sw, om(r"^Store\(FARMS\)\.start_epoch$"), "<=", om(r"^Query\(CurrentEpoch\)\.id$")))
    has_exp = any(any(re.search(r"withdraw_position::\{closure#\d+\}$", c) for c in e.chain()) for e in A.calls_id(r"helpers::is_farm_expired$"))
    no_true = all("Const(true)" not in {o for (o, ops) in e.vals[0].atoms if isinstance(o, str)} for e in filt[:1])
    chk.expect(has_start and has_exp and bool(filt) and no_true, "CUT-active-farm-filter", "withdraw_position filter",
               "a farm's owner shares the penalty only if start_epoch <= current and !is_farm_expired",
               "active-farm filter: start check %s, expiry check %s, unconditional true %s" % (has_start, has_exp, not no_true), A.entry)
    # no active owner: collector gets the total
    empty = PredFalse("assume no active farm owner", lambda pn, pa: pn == "is_empty" and origin_match(pa[0], r"^Store\(FARMS\)\.owner$"))
    pol = CutPolicy([empty])
    B = W.run(FM, "execute", WD, pol)
    p3 = penalty_calls(B)
    tot = None
    for (e, a, s) in find_rel(B.switches(), is_total, "<", om(AMT)):
        tot = a[0] if is_total(a[0]) else a[1]
    ok = bool(pol.hits) and len(p3) == 1 and tot is not None and exact_origins(p3[0].extra["dargs"][2]) == {"Store(CONFIG).fee_collector_addr"} \
        and set(flat_atoms(p3[0].extra["dargs"][1])) == set(flat_atoms(tot))
    chk.expect(ok, "PROV-all-to-collector", "no active farms", "with no active farm owner the fee collector receives exactly total_penalty_fee",
               "with no active farm owner: %d penalty messages, amount == total: %s" % (len(p3), ok), where(p3[0]) if p3 else B.entry)
    # owner's payout = amount - total (saturating) with the same total
    sends = [e for e in A.aggs(r"BankMsg::Send$") if e.fn.endswith("withdraw_position")]
    if sends and tot is not None:
        am = A.d(vfield(vfield(field_val(sends[0], "amount"), "[*]"), "amount"))
        m2 = {}
        for (o, ops) in flat_atoms(am):
            m2.setdefault(o, set()).update(ops)
        ok = all(o in m2 and {"sat", "sub"} <= m2[o] for o in all_origins(tot) if not o.startswith("Const("))
        chk.expect(ok and "Store(POSITIONS).lp_asset.amount" in m2, "PROV-owner-payout", "withdraw", "owner receives amount - total_penalty_fee (same total)",
                   "owner payout does not subtract the total penalty: %s" % sorted(m2)[:8], where(sends[0]))


def uniq_owners(chk, A):
    """the per-owner share is total/len(owners): owners paid must be the same de-duplicated collection"""
    loops = [e for e in A.calls(r"vec::Vec<.*IntoIterator.*::into_iter$|slice::Iter.*::into_iter$|\[T\].*::iter$") if e.fn.endswith("withdraw_position")
             and exact_origins(vfield(A.d(e.extra["dargs"][0]), "[*]")) == {"Store(FARMS).owner"}]
    lens = [e for e in A.calls(r"Vec::<.*>::len$") if e.fn.endswith("withdraw_position")
            and all_origins(vfield(e.extra["dargs"][0], "[*]")) <= {"Store(FARMS).owner", "Store(FARMS)"} and all_origins(vfield(e.extra["dargs"][0], "[*]"))]
    ok = bool(loops) and all("#uniq" in e.extra["dargs"][0].fields for e in loops) and bool(lens) and all("#uniq" in e.extra["dargs"][0].fields for e in lens)
    chk.expect(ok, "UNIQ-penalty-owners", "withdraw_position", "owner share = commission / |distinct owners| and exactly the distinct owners are paid",
               "penalty shares are paid over a collection that is not the de-duplicated owner set (loops over owners: %d, divisor from set: %s): "
               "an owner of two farms is paid twice and the payout exceeds the position" % (len(loops), bool(lens)), where(loops[0]) if loops else A.entry)
