"""C09 - emergency exit penalty is bounded, decays to zero and is fully accounted for (structural part)."""
import re
from rules.common import (opmap, PredTrue, PredFalse, CallTrue, where, flat_atoms, all_origins, exact_origins, ops_of, show, origin_match,
                          pred_test, data_test, field_val, rel, rel_sign, om, find_rel, sends_to)
from rules.C08 import EMERGENCY_FLAG, IS_EXPIRED_F, penalty_calls, PENALTY_TO
from base import CutPolicy, dep_origins
from absint import EMPTY, vfield, tagvals, const_of

EXPLANATION = ("static analysis (MIR abstract interpretation): every penalty transfer's amount passes `min` with the 90% cap constant (share "
               "50%, constants checked) and derives from base penalty, remaining time, duration and amount; `total_penalty_fee < amount` "
               "cuts every penalty transfer; penalty transfers are reachable only with emergency_unlock == Some(true) and !is_expired; "
               "recipients are farm owners passing the active-farm filter or the fee collector; with no active farm owner the fee "
               "collector receives the same value as the total; round-down only; penalty shares are paid over the de-duplicated owner set")
ASSUMPTIONS = ["<= 90% as a number, monotone decay and the split inequality are arithmetic facts not decided here"]
TECHNIQUE = "static analysis: operator-class provenance (min/cap, rounding), guard cut-sets, recipient provenance, constants, query-argument provenance (expiry epoch), enumeration bound, loop early-exit lint"
LEVEL_TEXT = "Structural obligations over all paths of ManagePosition::Withdraw (and, best effort, of the penalty helper)."
LEVEL_NOTE = "Not decided: numeric bound, decay monotonicity, n*floor(x/n) <= x."
FM = "farm_manager"
WD = ("ManagePosition", ".action", "Withdraw")
FLOORS = {"CUT-penalty": 3, "PROV-penalty-recipient": 2}
AMT = r"^Store\(POSITIONS\)\.lp_asset\.amount$"
is_total = lambda v: "Store(CONFIG).emergency_unlock_penalty" in all_origins(v)   # noqa: E731


def percent_consts(W):
    """{const id: n} for constants of farm-manager defined as Decimal::percent(n)"""
    out = {}
    for b in W.F.fns(FM):
        if b.kind != "const":
            continue
        for blk in b.blocks:
            t = blk["term"]
            if t["k"] == "call" and t.get("callee", "").endswith("Decimal::percent") and t["args"]:
                m = re.search(r"(\d+)_u64", t["args"][0].get("text", ""))
                if m:
                    out[b.id] = int(m.group(1))
    return out


def amount_of(A, e):
    return A.d(vfield(vfield(field_val(e, "amount"), "[*]"), "amount"))


def run(W, chk):
    pc_ = percent_consts(W)
    caps = [k for k, v in pc_.items() if v == 90]
    shares = [k for k, v in pc_.items() if v == 50]
    chk.expect(len(caps) == 1 and len(shares) == 1, "CONST-penalty", "cap/share", "one 90% constant (cap) and one 50% constant (owner share)",
               "percent constants in farm-manager: %s" % pc_, "")
    cap_origin = "Const(%s)" % caps[0] if caps else "Const(?)"

    A = W.run(FM, "execute", WD)
    pc = penalty_calls(A)
    rec = sorted(tuple(sorted(exact_origins(A.d(field_val(e, "to_address"))))) for e in pc)
    chk.expect(rec == [("Store(CONFIG).fee_collector_addr",), ("Store(FARMS).owner",)], "WHO-penalty-msgs", "Withdraw",
               "two penalty transfer sites (farm owners, fee collector)", "penalty transfer sites: %s" % rec, A.entry)
    for e in pc:
        to = exact_origins(A.d(field_val(e, "to_address")))
        am = opmap(amount_of(A, e))
        den = exact_origins(A.d(vfield(vfield(field_val(e, "amount"), "[*]"), "denom")))
        chk.expect(den == {"Store(POSITIONS).lp_asset.denom"}, "PROV-penalty-recipient", "denom:%s" % sorted(to), "paid in the position's LP denom", "penalty denom %s" % sorted(den), where(e))
        allops = set().union(*am.values()) if am else set()
        need = {"Store(CONFIG).emergency_unlock_penalty", "Store(POSITIONS).expiring_at", "Store(POSITIONS).unlocking_duration", "Store(POSITIONS).lp_asset.amount", "env.block.time"}
        capped = cap_origin in am and all("min" in am[o] for o in need if o in am)
        capped = capped and "max" not in am.get("Store(CONFIG).emergency_unlock_penalty", ())   # the cap is not raised to the configured base penalty
        chk.expect(need <= set(am) and capped and "div_ceil" not in allops and "wrap" not in allops, "PROV-penalty-cap", "amount:%s" % sorted(to),
                   "penalty = f(base, remaining time, duration, amount) passed through min(.., 90% cap), round-down only",
                   "penalty amount: missing inputs %s, capped %s, ops %s" % (sorted(need - set(am)), capped, sorted(allops & {"div_ceil", "wrap", "min", "max"})), where(e))
    from rules.C09 import uniq_owners as _u
    _u(chk, A)
    from rules.common import farm_enumeration_bound, farm_expiry_epoch
    farm_enumeration_bound(chk, A, "Withdraw", W)
    farm_expiry_epoch(chk, A, "Withdraw")
    from rules.common import all_elements_processed
    all_elements_processed(chk, W, A, r"^Store\(FARMS\)", "Withdraw", "LOOP-all-elements")   # every active farm owner is paid
    lt = PredTrue("total_penalty_fee < amount", lambda pn, pa: rel_sign(pn, pa, is_total, "<", om(AMT)))
    for nm, cut in (("penalty < amount", lt), ("emergency flag", EMERGENCY_FLAG), ("not yet expired", IS_EXPIRED_F)):
        pol = CutPolicy([cut])
        B = W.run(FM, "execute", WD, pol)
        p2 = penalty_calls(B)
        chk.expect(bool(pol.hits) and not p2, "CUT-penalty", nm, "no penalty transfer without `%s`" % cut.name,
                   "penalty transfers reachable without `%s` (guard found %s)" % (cut.name, bool(pol.hits)), where(p2[0]) if p2 else B.entry)
    # active-farm filter: the predicate that selects farm owners compares start_epoch with the current epoch and tests expiry
    def is_expiry(v):
        o = all_origins(v)
        return {"Store(FARMS).claimed_amount", "Store(FARMS).farm_asset.amount"} <= o or any(x.startswith("Query(Epoch)") for x in o)
    filt = [e for e in A.events if e.kind == "invoke" and e.vals and is_expiry(e.vals[0])]
    has_start = bool(find_rel(A.switches(), om(r"^Store\(FARMS\)\.start_epoch$"), "<=", om(r"^Query\(CurrentEpoch\)\.id$")))
    expiry = bool(filt)
    no_true = all("Const(true)" not in {o for (o, ops) in e.vals[0].atoms if isinstance(o, str)} for e in filt)
    chk.expect(has_start and expiry and bool(filt) and no_true, "CUT-active-farm-filter", "Withdraw",
               "a farm's owner shares the penalty only if start_epoch <= current and the farm is not expired",
               "active-farm filter: start check %s, expiry test %s, unconditional true %s" % (has_start, expiry, not no_true), A.entry)
    # no active owner: collector gets the total
    empty = PredFalse("assume no active farm owner", lambda pn, pa: pn == "is_empty" and origin_match(pa[0], r"^Store\(FARMS\)\.owner$"))
    pol = CutPolicy([empty])
    B = W.run(FM, "execute", WD, pol)
    p3 = penalty_calls(B)
    tot = None
    for (e, a, s) in find_rel(B.switches(), is_total, "<", om(AMT)):
        tot = a[0] if is_total(a[0]) else a[1]
    ok = bool(pol.hits) and len(p3) == 1 and tot is not None and exact_origins(B.d(field_val(p3[0], "to_address"))) == {"Store(CONFIG).fee_collector_addr"} \
        and set(flat_atoms(amount_of(B, p3[0]))) == set(flat_atoms(tot))
    chk.expect(ok, "PROV-all-to-collector", "no active farms", "with no active farm owner the fee collector receives exactly total_penalty_fee",
               "with no active farm owner: %d penalty transfers, amount == total: %s" % (len(p3), ok), where(p3[0]) if p3 else B.entry)
    # owner's payout = amount - total (saturating) with the same total
    sends = sends_to(A, {"Store(POSITIONS).receiver"})
    if sends and tot is not None:
        m2 = opmap(amount_of(A, sends[0]))
        ok = all(o in m2 and {"sat", "sub"} <= m2[o] for o in all_origins(tot) if not o.startswith("Const("))
        chk.expect(ok and "Store(POSITIONS).lp_asset.amount" in m2, "PROV-owner-payout", "withdraw", "owner receives amount - total_penalty_fee (same total)",
                   "owner payout does not subtract the total penalty: %s" % sorted(m2)[:8], where(sends[0]))
    else:
        chk.fail("PROV-owner-payout", "withdraw", "payout to the position receiver / total penalty comparison not found", A.entry)


def uniq_owners(chk, A):
    """the per-owner share is total/len(owners): owners paid must be the same de-duplicated collection"""
    loops = [e for e in A.calls(r"vec::Vec<.*IntoIterator.*::into_iter$|slice::Iter.*::into_iter$|\[T\].*::iter$")
             if exact_origins(vfield(A.d(e.extra["dargs"][0]), "[*]")) == {"Store(FARMS).owner"}]
    lens = [e for e in A.calls(r"Vec::<.*>::len$") if exact_origins(vfield(A.d(e.extra["dargs"][0]), "[*]")) == {"Store(FARMS).owner"}]
    ok = bool(loops) and all("#uniq" in A.d(e.extra["dargs"][0]).fields for e in loops) and bool(lens) and all("#uniq" in A.d(e.extra["dargs"][0]).fields for e in lens)
    chk.expect(ok, "UNIQ-penalty-owners", "Withdraw", "owner share = commission / |distinct owners| and exactly the distinct owners are paid",
               "penalty shares are paid over a collection that is not the de-duplicated owner set (loops over owners: %d, divisor from set: %s): "
               "an owner of two farms is paid twice and the payout exceeds the position" % (len(loops), bool(lens)), where(loops[0]) if loops else A.entry)
