"""C05 - farm manager always holds every locked LP token and every unclaimed reward (structural premises)."""
import re
from rules.common import (opmap, PredTrue, where, flat_atoms, all_origins, exact_origins, ops_of, show, origin_match, field_val, effects_signature)
from base import CutPolicy, Check
from absint import EMPTY, vfield, tagvals, const_of
import rules.C08 as c8
import rules.C11 as c11

EXPLANATION = ("static analysis (MIR abstract interpretation): premises of the custody induction (per message, net inflow - ledger increase >= 0 "
               "holds structurally when the same value is credited and received, or debited and sent): complete table of every "
               "BankMsg::Send the farm manager can build per message variant with its recipient; positions record exactly the coin "
               "received and pay exactly what is recorded; a claim adds to claimed_amount what it pays; closing refunds budget minus "
               "claimed to the stored owner and removes the farm; farm funding is behind the funds-exactness guards")
ASSUMPTIONS = ["the induction over messages and n*floor(x/n) <= x stay on paper", "multiplicity of penalty recipients (unique owners vs farms) is a numeric fact not decided"]
TECHNIQUE = "static analysis: effect-ownership table (who sends what to whom), same-value provenance at both ends of each transfer, budget-guard operand provenance shared with C06"
LEVEL_TEXT = "Structural premises of the custody argument, exhaustive over message variants and CFG paths; the inequality itself is not computed."
LEVEL_NOTE = "Not decided: the balance >= ledger inequality as a number; rounding slack of the penalty split."
FM = "farm_manager"
FLOORS = {"WHO-sends": 10, "PROV-claim-recorded": 1}

# variant -> multiset of recipient origins of the BankMsg::Send constructors reachable from it
SENDS = {
    ("Claim",): [("info.sender",)],
    ("ManageFarm", ".action", "Create"): [("Store(CONFIG).fee_collector_addr",), ("Store(FARMS).owner",), ("info.sender",)],
    ("ManageFarm", ".action", "Close"): [("Store(FARMS).owner",)],
    ("ManagePosition", ".action", "Withdraw"): [("Store(CONFIG).fee_collector_addr",), ("Store(FARMS).owner",), ("Store(POSITIONS).receiver",)],
}


def run(W, chk):
    from rules.common import borrow
    borrow(W, chk, "C06", {"PROV-budget-guard"}, "claims never take more than the farm's budget out of custody")
    paths, _ = W.variant_paths(FM, "execute")
    entries = [("execute", vp) for vp in paths] + [("reply", None), ("instantiate", None), ("migrate", None)]
    for which, vp in entries:
        A = W.run(FM, which, vp)
        got = sorted(tuple(sorted(all_origins(A.d(field_val(e, "to_address"))))) for e in A.aggs(r"BankMsg::Send$"))
        want = sorted(SENDS.get(vp, [])) if which == "execute" else []
        lab = "/".join(vp or (which,))
        chk.expect(got == want, "WHO-sends", lab, "transfers to: %s" % got,
                   "outgoing transfers differ from the table: found recipients %s, expected %s" % (got, want), A.entry)
        others = [e for e in A.outflow_aggs() if not re.search(r"BankMsg::Send$", e.name)] + \
                 [e for e in A.outflow_calls() if "SubMsg" not in e.name]
        chk.expect(not others, "WHO-sends", lab + ".other", "no other kind of outgoing message", "other outflows: %s" % [e.name for e in others][:3],
                   where(others[0]) if others else "")

    # ---- positions (shared with C08): recorded = received, paid = recorded
    sub = Check("C05")
    c8.run(W, sub)
    for o in sub.obligations:
        if o["rule"] in ("PROV-position-fields", "PROV-full-payout", "PAIR-withdraw-remove", "WHO-positions-writes", "KEY-create-identifier"):
            chk.obligations.append(o)

    # ---- claim: what is paid is what is added to claimed_amount
    A = W.run(FM, "execute", ("Claim",))
    sends = A.aggs(r"BankMsg::Send$")
    fu = [e for e in A.writes() if e.extra.get("item") == "FARMS"]
    if sends and fu:
        paid = {o for o in all_origins(A.d(vfield(vfield(field_val(sends[0], "amount"), "[*]"), "amount"))) if not o.startswith("Const(")}
        ca = vfield(fu[0].extra.get("value", EMPTY), "claimed_amount")
        rec = {o for o in all_origins(ca) if not o.startswith("Const(")} - {"Store(FARMS).claimed_amount"}
        m = opmap(ca)
        chk.expect(paid == rec and bool(paid) and m.get("Store(FARMS).claimed_amount") == frozenset(["add"]), "PROV-claim-recorded", "claim",
                   "claimed_amount += the reward that is paid (same provenance)", "paid reward and recorded claim differ: only paid %s, only recorded %s" % (
                       sorted(paid - rec)[:5], sorted(rec - paid)[:5]), where(fu[0]))
        den = all_origins(A.d(vfield(vfield(field_val(sends[0], "amount"), "[*]"), "denom")))
        chk.expect(den == {"Store(FARMS).farm_asset.denom"}, "PROV-claim-recorded", "denom", "paid in the farm's reward denom", "reward denom %s" % sorted(den), where(sends[0]))
        ov = {".".join(p) for p, f in __import__("rules.common", fromlist=["overrides"]).overrides(fu[0].extra.get("value", EMPTY), "Store(FARMS)")}
        chk.expect(ov == {"claimed_amount"}, "PROV-claim-recorded", "only-claimed", "a claim changes only claimed_amount", "claim also rewrites %s" % sorted(ov), where(fu[0]))
    else:
        chk.fail("PROV-claim-recorded", "claim", "anchors missing: sends %d, FARMS writes %d" % (len(sends), len(fu)), A.entry)

    from rules.C09 import uniq_owners
    uniq_owners(chk, W.run(FM, "execute", ("ManagePosition", ".action", "Withdraw")))
    # ---- close: refund and removal (shared with C11)
    for vp in (("ManageFarm", ".action", "Close"), ("ManageFarm", ".action", "Create")):
        A = W.run(FM, "execute", vp)
        c11.close_refund(chk, A, vp[-1] + ".close_farms")
        c11.commit(chk, A, vp[-1])
    # ---- funding guards (shared with C11)
    sub = Check("C05")
    c11.run(W, sub)
    for o in sub.obligations:
        if o["rule"] in ("CUT-create-farm", "CUT-expand-farm", "ACUT-zero-fee", "PROV-farm-fields") and \
                re.search(r"exact reward|coin count|asset sent|attached == declared|expand\.amount|create\.farm_asset|zero", o["instance"] + o["rule"]):
            chk.obligations.append(o)
