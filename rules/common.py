"""Shared guard definitions and helpers for the rule modules."""
import re
from base import (TryOk, PredTrue, PredFalse, Cut, CutPolicy, eq_test, data_test, pred_test, origin_match, rel, rel_sign, om, find_rel, rel_atoms,
                  flat_atoms, exact_origins, all_origins, ops_of, call_tag, where, short_id, show,
                  _bool_targets)
from absint import Val, V, EMPTY, vfield, vget, tagvals, const_of

class AnyOf(Cut):
    """one guard in several spellings: the union of what the member cuts remove"""

    def __init__(self, name, cuts):
        self.name = name
        self.cuts = cuts

    def remove(self, I, frame, pname, pargs, positive, labels3, opv):
        out = set()
        for c in self.cuts:
            r = c.remove(I, frame, pname, pargs, positive, labels3, opv)
            if r:
                out |= set(r)
        return out or None


def _funds_empty(pn, pa):
    """`info.funds.is_empty()` / `info.funds.len() == 0` (a hand-written nonpayable check)"""
    if not pa or not hasattr(pa[0], "atoms"):
        return 0
    if pn == "is_empty" and exact_origins(pa[0]) == {"info.funds"}:
        return 1
    if pn == "eq" and len(pa) > 1 and hasattr(pa[1], "atoms"):
        a, b = pa[0], pa[1]
        ln = lambda v: any(o == "info.funds" and "len" in ops for (o, ops) in flat_atoms(v))      # noqa: E731
        z = lambda v: exact_origins(v) in ({"Const(0_usize)"}, {"Const(0)"})      # noqa: E731
        return 1 if (ln(a) and z(b)) or (ln(b) and z(a)) else 0
    return 0


NONPAYABLE = AnyOf("try(cw_utils::nonpayable$)", [TryOk(r"cw_utils::nonpayable$"), PredTrue("info.funds.is_empty()", _funds_empty)])
ASSERT_OWNER = TryOk(r"cw_ownable::assert_owner$")
IS_OWNER = PredTrue("is_owner(info.sender)", pred_test("is_owner", r"^info\.sender$"))


def EQ(name, a, b):
    return PredTrue(name, eq_test(a, b))


class VariantEdge(Cut):
    """Remove the switch edges for the given variants of a discriminant read on a value whose
    origins match `pat`."""

    def __init__(self, name, pat, variants):
        self.name = name
        self.pat = pat
        self.variants = set(variants)

    def remove(self, I, frame, pname, pargs, positive, labels3, opv):
        if pname != "discr":
            return None
        if not origin_match(pargs[0], self.pat, require_all=False):
            return None
        explicit = {vn for (v, tb, vn) in labels3 if vn}
        out = set()
        for (v, tb, vn) in labels3:
            if vn in self.variants:
                out.add(tb)
            elif v == "otherwise" and any(x not in explicit for x in self.variants):
                out.add(tb)
        return out or None


class DataIs(Cut):
    """A `match` on a plain value with a literal pattern (`StableSwap { amp: 0 } => Err(..)`): assume the value IS the literal, i.e.
    remove every edge of a switch on a value whose origins match `pat` except the one labelled `label`."""

    def __init__(self, name, pat, label):
        self.name = name
        self.pat = pat
        self.label = label

    def remove(self, I, frame, pname, pargs, positive, labels3, opv):
        if pname != "data" or not pargs or not hasattr(pargs[0], "atoms") or not origin_match(pargs[0], self.pat, require_all=False):
            return None
        if not any(v == self.label for (v, tb, vn) in labels3):
            return None
        return {tb for (v, tb, vn) in labels3 if v != self.label}


class CallTrue(Cut):
    """Switch on the bool returned by a (local or external) function whose id matches: remove the
    edge taken when it returned true."""

    def __init__(self, callee_pat, name=None, truth=True):
        self.pat = callee_pat
        self.name = name or "true(%s)" % callee_pat
        self.truth = truth

    def remove(self, I, frame, pname, pargs, positive, labels3, opv):
        if not any(re.search(self.pat, c) for c in call_tag(opv)):
            return None
        return _bool_targets(labels3, self.truth)


class ValTrue(Cut):
    """Switch on a bool whose provenance satisfies `test(val)`: remove the edge taken when it is `truth`."""

    def __init__(self, name, test, truth=True):
        self.name = name
        self.test = test
        self.truth = truth

    def remove(self, I, frame, pname, pargs, positive, labels3, opv):
        if not self.test(opv):
            return None
        return _bool_targets(labels3, self.truth)


_BORROW = {}
_BORROW_BUSY = set()


def borrow(W, chk, module, rules, why):
    """Obligations of a neighbouring property's rule that are also necessary conditions of this property: the neighbour's rule
    module is evaluated once per process and the obligations of the named rules are copied (instances prefixed with the
    neighbour's id)."""
    import importlib
    from base import Check
    if getattr(chk, "_borrowed", False):
        return 0          # a neighbour evaluated on behalf of another check does not borrow in turn
    key = (W.facts_dir, module)
    if key in _BORROW_BUSY or module == getattr(chk, "pid", None):
        return 0          # cyclic sharing (A evaluates B which shares A's rules): the outer evaluation already covers them
    if key not in _BORROW:
        sub_ = Check(module, chk.tier)
        sub_._borrowed = True
        _BORROW_BUSY.add(key)
        try:
            importlib.import_module("rules.%s" % module).run(W, sub_)
        except Exception as ex:   # the neighbour's own check reports its internal errors
            sub_.fail("ENGINE", "exception", str(ex)[:200])
        finally:
            _BORROW_BUSY.discard(key)
        _BORROW[key] = sub_
    got = 0
    for o in _BORROW[key].obligations:
        if o["rule"] in rules:
            o2 = dict(o)
            o2["instance"] = "%s:%s" % (module, o["instance"])
            chk.obligations.append(o2)
            got += 1
    chk.notes.append("shared with %s (%s): %d obligations of %s" % (module, why, got, sorted(rules)))
    return got


def pred_tree_has(v, test, depth=0):
    """does the predicate tree of a switch operand contain a comparison (name, args) satisfying test?"""
    if depth > 8 or not hasattr(v, "atoms"):
        return False
    for a in v.atoms:
        if isinstance(a[0], tuple) and a[0][0] == "pred":
            if test(a[0][1], a[0][2:]):
                return True
            for x in a[0][2:]:
                if pred_tree_has(x, test, depth + 1):
                    return True
    for k, f in v.fields.items():
        if not k.startswith("#v:") and pred_tree_has(f, test, depth + 1):
            return True
    return False


class DecisionOn(Cut):
    """A bool decision whose computation contains a comparison satisfying `test(name, args)`: remove the edge taken when the decision
    is `truth`.  Used in both polarities by cut_by_any (only the accepting polarity can block the protected effect)."""

    def __init__(self, name, test, truth):
        self.name = "%s [%s edge]" % (name, truth)
        self.test = test
        self.truth = truth

    def remove(self, I, frame, pname, pargs, positive, labels3, opv):
        if pname == "discr" or not pred_tree_has(opv, self.test):
            return None
        return _bool_targets(labels3, self.truth)


def decision(name, test):
    return [DecisionOn(name, test, True), DecisionOn(name, test, False)]


def block_in(fn_id, e):
    """block of function `fn_id` from which event e is reached (e's own block when e is in fn_id, else the call site), or None"""
    ids = [c[0] for c in e.ctx]
    if fn_id not in ids:
        return None
    i = len(ids) - 1 - ids[::-1].index(fn_id)
    return e.ctx[i + 1][1] if i + 1 < len(e.ctx) else e.bb


def same_iteration(W, anchor, other):
    """are the two events produced inside the same innermost loop of the function containing `anchor`?  None when undecidable"""
    import accum
    b = W.F.get(anchor.fn)
    if b is None:
        return None
    bo = block_in(anchor.fn, other)
    if bo is None or bo < 0:
        return None
    succ, loops = accum._loops(b)
    inner = [l for l in sorted(loops, key=len) if anchor.bb in l]
    if not inner:
        return None
    return bo in inner[0]


def enclosing_iteration_elements(W, A, e):
    """element values of the iterations (closure invocations by iterator combinators, `for`/`while` loops) that enclose event e,
    innermost first: a list of Val"""
    import accum
    out = []
    chain = [c[0] for c in e.ctx]
    for fid in reversed(chain):
        if "{closure" in fid.rsplit("::", 1)[-1]:
            for x in A.events:
                if x.kind == "invoke" and x.name == fid:
                    out += [a for a in x.extra.get("args", []) if hasattr(a, "atoms")]
            continue
        b = W.F.get(fid)
        bb = block_in(fid, e)
        if b is None or bb is None or bb < 0:
            continue
        succ, loops = accum._loops(b)
        for l in sorted(loops, key=len):
            if bb not in l:
                continue
            for x in A.calls(r"Iterator>?::next$"):
                if x.fn == fid and x.bb in l and x.extra.get("dargs"):
                    out.append(vfield(A.d(x.extra["dargs"][0]), "[*]"))
    return out


def independent_of(chk, W, rule, contract, vp, label, name, test, effect, detail_ok, detail_fail, extra=()):
    """Obligation: the effect selected by `effect(A)` is not control-dependent on the decisions whose predicate satisfies `test`:
    it stays reachable whichever way those decisions go (assume them all true, then all false).  Skipped when no such decision exists."""
    seen = {}
    hit = False
    for truth in (True, False):
        cut = DecisionOn(name, test, truth)      # removes the edge taken when the decision is `truth`
        pol = CutPolicy([cut] + list(extra))
        A = W.run(contract, "execute", vp, pol)
        hit = hit or cut.name in pol.hits
        seen[not truth] = len(effect(A))
    inst = "%s/%s [%s]" % (contract, "/".join(vp or ()), label)
    if not hit:
        chk.skip(rule, inst, "no decision of this kind found")
        return
    chk.expect(all(n > 0 for n in seen.values()), rule, inst, detail_ok,
               "%s (reachable when the decisions hold: %d site(s); when they do not: %d site(s))" % (detail_fail, seen[True], seen[False]), "")


def zero_test(is_amount):
    """comparison of a value satisfying is_amount with a zero constant, in any spelling"""
    def zero(v):
        o = all_origins(v)
        return bool(o) and all(x.startswith("Const(") for x in o)

    def test(pn, pa):
        if pn in ("is_zero",) and pa:
            return is_amount(pa[0])
        return pn in ("gt", "lt", "ge", "le", "eq", "ne") and len(pa) > 1 and ((is_amount(pa[0]) and zero(pa[1])) or (is_amount(pa[1]) and zero(pa[0])))
    return test


def helper_candidates(A, test, contract_prefix):
    """first-party callees (any name) inside which a decision satisfying `test` is taken: their `?` / bool result is a candidate guard"""
    out, seen = [], set()
    marks = [x for x in A.events if x.kind in ("switch", "invoke") and x.vals and pred_tree_has(x.vals[0], test)]
    for x in marks:
        for fid in x.chain():
            base_fid = fid.split("::{closure")[0]
            if base_fid in seen or not base_fid.startswith(contract_prefix) or base_fid.endswith("::execute") or base_fid.endswith("::reply"):
                continue
            seen.add(base_fid)
            pat = re.escape(base_fid.split("::", 1)[1]) + "$"
            out += [TryOk(pat), CallTrue(pat, "helper %s says yes" % base_fid.rsplit("::", 1)[-1], True), CallTrue(pat, "helper %s says no" % base_fid.rsplit("::", 1)[-1], False)]
    return out


def cut_by_any(chk, W, rule, contract, vp, label, cands, which="execute", effects=None, extra=()):
    """Obligation: at least one of the candidate guards (different spellings / polarities of the same check) is found on a path of the
    handler and, with its accept edge removed, no protected effect is reachable.  Name-free alternative to a TryOk on a named helper."""
    inst = "%s/%s [%s]" % (contract, "/".join(vp or ()), label)
    tried = []
    for c in cands:
        pol = CutPolicy([c] + list(extra))
        A = W.run(contract, which, vp, pol)
        if c.name not in pol.hits:
            continue
        eff = effects(A) if effects else A.effects()
        tried.append((c.name, len(eff)))
        if not eff:
            chk.ok(rule, inst, "no protected effect reachable once the accept edge of `%s` is removed (%d site(s))" % (c.name, len(pol.hits[c.name])))
            return True
    chk.fail(rule, inst, "no guard of this kind cuts the protected effect (candidates found on a path: %s)" % (tried or "none"),
             "entry %s" % W.entry(contract, which).id if hasattr(W.entry(contract, which), "id") else "")
    return False


def sends_to(A, recipients):
    """BankMsg::Send aggregates whose recipient origins are within `recipients`"""
    out = []
    for e in A.aggs(r"BankMsg::Send$"):
        to = all_origins(A.d(field_val(e, "to_address")))
        if to and to <= set(recipients):
            out.append(e)
    return out


def no_effects(chk, W, rule, contract, vpath, cuts, label, which="execute", opaque=(), effects=None, extra=()):
    """Obligation: with the accept edges of `cuts` removed, no storage write / outflow is reachable
    from the entry variant.  Also requires that each cut matched at least one switch (anchor)."""
    pol = CutPolicy(list(cuts) + list(extra), opaque=opaque)
    A = W.run(contract, which, vpath, pol)
    inst = "%s/%s cut{%s}%s" % (contract, "/".join(vpath or ()), ",".join(c.name for c in cuts), label)
    if not any(c.name in pol.hits for c in cuts):
        chk.fail(rule, inst, "guard not found on any path of this handler: %s" % [c.name for c in cuts],
                 "entry %s" % A.entry)
        return False
    eff = effects(A) if effects else A.effects()
    if eff:
        e = eff[0]
        chk.fail(rule, inst, "%d effect(s) reachable without crossing the guard(s); first: %s %s" %
                 (len(eff), e.name.split("<")[0][-50:], e.extra.get("item", "")), where(e))
        return False
    chk.ok(rule, inst, "no storage write / outflow reachable once the accept edge(s) are removed; guard sites: %s" %
           {k: len(v) for k, v in pol.hits.items()})
    return True


def effects_signature(A):
    """Multiset description of the effects of one analysis (for WHO rules)."""
    sig = {}
    for e in A.writes():
        k = "write:%s.%s" % (e.extra.get("item"), e.extra.get("sop") or short_call(e.name))
        sig[k] = sig.get(k, 0) + 1
    for e in A.outflow_aggs():
        k = "msg:%s" % e.name.replace("cosmwasm_std::", "")
        sig[k] = sig.get(k, 0) + 1
    for e in A.outflow_calls():
        k = "call:%s" % short_call(e.name)
        if e.extra.get("submsg_mode"):
            k += ":" + e.extra["submsg_mode"]
        sig[k] = sig.get(k, 0) + 1
    return sig


def short_call(name):
    n = re.sub(r"<[^<>]*>", "", name)
    n = re.sub(r"<[^<>]*>", "", n)
    return "::".join([p for p in n.split("::") if p][-2:])


def field_val(ev, fname):
    """Operand value of field `fname` of an aggregate event."""
    for f, v in zip(ev.extra.get("fields", []), ev.vals):
        if f == fname:
            return v
    return EMPTY


def overrides(v, base, path=()):
    """Field paths of `v` whose value is not just the corresponding part of `base` (an origin
    string).  Returns list of (path tuple, Val)."""
    out = []
    for k, f in v.fields.items():
        if k.startswith("#"):
            continue
        sub = "%s[*]" % base if k == "[*]" else "%s.%s" % (base, k)
        only_base = {o for (o, ops) in f.atoms} <= {sub} and all(not ops for (o, ops) in f.atoms)
        if f.fields:
            out += overrides(f, sub, path + (k,))
            if not only_base:
                out.append((path + (k,), f))
        elif not only_base:
            out.append((path + (k,), f))
    return out


def may_tags(v, tag, depth=0):
    """All '#may:<tag>' markers anywhere in the tree."""
    out = set()
    if depth > 8:
        return out
    t = v.fields.get("#may:" + tag)
    if t is not None:
        out |= {o for (o, ops) in t.atoms}
    for k, f in v.fields.items():
        if not k.startswith("#"):
            out |= may_tags(f, tag, depth + 1)
    return out


def pool_writes(A):
    return [e for e in A.writes() if e.extra.get("item") == "POOLS"]


def status_reads(A):
    """flags of Store(POOLS).status read by any switch of the analysis."""
    flags = set()
    for e in A.switches():
        for (o, ops) in flat_atoms(e.vals[0]):
            m = re.match(r"Store\(POOLS\)\.status\.(\w+)$", o)
            if m:
                flags.add(m.group(1))
    return flags


def has_eq_between(v, pat_a, pat_b, depth=0):
    """does the value's computation contain `a == b` between values with exactly these origins?"""
    if depth > 8 or not hasattr(v, "atoms"):
        return False
    for a in v.atoms:
        if isinstance(a[0], tuple) and a[0][0] == "pred":
            if a[0][1] in ("eq", "ne") and len(a[0]) > 3:
                l, r = exact_origins(a[0][2]), exact_origins(a[0][3])
                if (l == pat_a and r == pat_b) or (l == pat_b and r == pat_a):
                    return True
            for x in a[0][2:]:
                if has_eq_between(x, pat_a, pat_b, depth + 1):
                    return True
    for k, f in v.fields.items():
        if has_eq_between(f, pat_a, pat_b, depth + 1):
            return True
    return False


def selects_by(A, pat_a, pat_b):
    """some position()/find()/filter()/loop decision of the analysis compares exactly these two origins for equality"""
    return any(has_eq_between(x, pat_a, pat_b) for e in A.events if e.kind in ("switch", "invoke") for x in e.vals)


def _num(o):
    m = re.match(r"Const\((\d+)_[ui]\d+\)$|Const\((\d+)_usize\)$", o)
    return int(m.group(1) or m.group(2)) if m else None


def _farm_takes(A):
    return [e for e in A.calls(r"Iterator::take$") if "Store(FARMS)" in all_origins(vfield(A.d(e.extra["dargs"][0]), "[*]"))]


def farm_enumeration_bound(chk, A, lab, W=None):
    """rewards / penalties must consider every farm of the LP token: the bound on the farms read from storage derives from
    the configured maximum or the hard cap, never from the pagination default alone"""
    takes = _farm_takes(A)
    ok = any(e.extra.get("item") == "FARMS" for e in A.reads())   # anchor; no bound at all means every farm is read
    seen = []
    for e in takes:
        o = {x for x in all_origins(e.extra["dargs"][1])}
        seen.append(sorted(o))
        ok = ok and ("Store(CONFIG).max_concurrent_farms" in o or o == {"Const(farm_manager::state::MAX_FARMS_LIMIT)"} or o == {"Const(100_u32)"})
    chk.expect(ok, "PROV-farm-enumeration-bound", lab, "the number of farms considered is bounded by the configured maximum / hard cap",
               "farms are enumerated with bound %s (the pagination default silently drops farms beyond it)" % seen, where(takes[0]) if takes else A.entry)
    if W is not None and takes:
        # sibling agreement: the constant cap applied here is the hard cap the public farm listings use (their largest constant)
        Q = W.run("farm_manager", "query", ("Farms",))
        caps = [n for e in _farm_takes(Q) for n in map(_num, all_origins(e.extra["dargs"][1])) if n is not None]
        here = [n for e in takes for n in map(_num, all_origins(e.extra["dargs"][1])) if n is not None]
        if caps and here:
            chk.expect(min(here) >= max(caps), "PROV-farm-enumeration-bound", lab + ".hard-cap", "constant cap %d = the farm listings' hard cap" % max(caps),
                       "farms are enumerated under a constant cap of %d although farm listings allow %d: farms beyond it silently earn / receive nothing" % (min(here), max(caps)), where(takes[0]))


def farm_expiry_epoch(chk, A, lab):
    """a farm that preliminarily ends at epoch e (inclusive) is measured against the start of epoch e + 1: every Epoch{id} query
    whose id derives from the stored preliminary_end_epoch goes through an addition (best effort: skipped when the expiry is
    not decided from such a query)"""
    qs = []
    for e in A.calls(r"query_wasm_smart$"):
        da = e.extra.get("dargs", [])
        if len(da) < 3:
            continue
        idv = opmap(vfield(vfield(da[2], "Epoch"), "id"))
        if any(o.endswith(".preliminary_end_epoch") for o in idv):
            qs.append((e, idv))
    if not qs:
        chk.skip("PROV-farm-expiry-epoch", lab, "no Epoch{id <- preliminary_end_epoch} query on this path")
        return
    for (e, idv) in qs:
        pe = [ops for o, ops in idv.items() if o.endswith(".preliminary_end_epoch")]
        chk.expect(all("add" in ops and not (ops & {"sub", "sat", "wrap"}) for ops in pe), "PROV-farm-expiry-epoch", lab,
                   "expiry is measured from the start of the epoch after the farm's last one (end + 1)",
                   "the expiry query asks for epoch %s: the farm's last epoch itself, so the farm counts as expired one epoch early" % {k: sorted(v) for k, v in idv.items()}, where(e))


def no_truncation(chk, A, elem_pat, lab, rule):
    """no truncating / filtering adaptor sits between a request's vector and the loop that processes it"""
    bad = [e for e in A.calls(r"Iterator::(take|skip|step_by|take_while|skip_while|filter|filter_map|rev|nth)$|::(chunks|chunks_exact|rchunks|array_chunks)$")
           if any(re.search(elem_pat, o) for o in all_origins(vfield(A.d(e.extra["dargs"][0]), "[*]")) | all_origins(A.d(e.extra["dargs"][0])))]
    chk.expect(not bad, rule, lab, "every element is processed, in order", "the processed sequence goes through `%s`" % (bad[0].name.rsplit("::", 1)[-1] if bad else ""),
               where(bad[0]) if bad else "")


def loop_accumulators(W, chk, crates, rule="ACC-loop-carried"):
    """sums built in loops accumulate: a variable living across iterations that is assigned `a + element-derived` has
    its own previous value among the operands (engine/accum.py).  Positive control: the rule must fire on the stored
    fixture body (the reverse-quote fee loop with the accumulator rebuilt from its base)."""
    import json
    import os
    import accum
    import facts
    fx = os.path.join(os.path.dirname(os.path.dirname(os.path.abspath(__file__))), "fixtures", "accum_overwrite.json")
    with open(fx) as f:
        fb = facts.Body(json.load(f)["bodies"][0], "fixture")
    _, fv = accum.scan_body(fb)
    chk.expect(len(fv) == 1 and fv[0]["var"] == "fees", rule, "positive-control", "the rule fires on the stored fixture (overwritten accumulator)",
               "the accumulator rule no longer fires on its fixture: %s" % fv, "fixtures/accum_overwrite.json")
    nb, accs, viol = accum.scan(W.F, crates)
    seen = set()
    for a in accs:
        k = "%s:%s" % (short_id(a["fn"]), a["var"])
        if k in seen:
            continue
        seen.add(k)
        chk.ok(rule, k, "accumulates (%s)" % a["form"])
    for v in viol:
        chk.fail(rule, "%s:%s" % (short_id(v["fn"]), v["var"]), v["why"], "%s (%s)" % (v["span"], short_id(v["fn"])))
    chk.notes.append("%s: %d bodies of %s scanned, %d loop accumulators, %d overwritten" % (rule, nb, list(crates), len(accs), len(viol)))


def _fixture(name):
    import json
    import os
    import facts
    fx = os.path.join(os.path.dirname(os.path.dirname(os.path.abspath(__file__))), "fixtures", name)
    with open(fx) as f:
        d = json.load(f)
    return facts.Body(d["bodies"][0], "fixture"), d


def visited_fns(*analyses):
    return {e.fn for A in analyses for e in A.events}


def loop_chains(W, chk, crates, rule="CHAIN-loop-carried", only=None):
    """`x = f(x)` chains in loops (hop k's output is hop k+1's input): the carried variable is re-assigned from the call's result on
    every path from the call back to the loop head (engine/accum.py).  Positive control: the stored fixture body (the simulated route
    with the carried amount updated only under a condition) must be reported."""
    import accum
    fb, _ = _fixture("chain_conditional.json")
    _, fv = accum.chained_updates(fb)
    chk.expect(any(v["var"] == "amount" for v in fv), rule, "positive-control", "the rule fires on the stored fixture (conditionally updated chain)",
               "the chain rule no longer fires on its fixture", "fixtures/chain_conditional.json")
    n = 0
    seen = set()
    for c in crates:
        for b in W.F.fns(c):
            if b.kind not in ("fn", "closure") or (only is not None and b.id not in only):
                continue
            n += 1
            ch, vi = accum.chained_updates(b)
            for x in vi:
                k = "%s:%s" % (short_id(x["fn"]), x["var"])
                if k not in seen:
                    seen.add(k)
                    chk.fail(rule, k, x["why"], "%s (%s)" % (x["span"], short_id(x["fn"])))
            for x in ch:
                k = "%s:%s" % (short_id(x["fn"]), x["var"])
                if k not in seen:
                    seen.add(k)
                    chk.ok(rule, k, "re-assigned from `%s` on every path to the next iteration" % x["call"])
    chk.notes.append("%s: %d bodies of %s scanned, %d chained variables" % (rule, n, list(crates), len(seen)))


def all_elements_processed(chk, W, A, elem_pat, lab, rule):
    """the loop that consumes a request's vector leaves only when the vector is exhausted or with an error: no `break` (or other
    jump to the loop's normal continuation) from inside the body.  The loop is found by what it iterates, not by name; when the
    vector is consumed by iterator combinators instead of a loop the obligation is skipped (no_truncation covers adaptors)."""
    import accum
    fb, d = _fixture("loop_early_break.json")
    if not getattr(chk, "_pc_early", False):
        chk._pc_early = True
        chk.expect(bool(accum.early_exits(fb, d["next_bb"])), "LOOP-all-elements", "positive-control(early-exit)", "the rule fires on the stored fixture (hop loop with a break)",
                   "the early-exit rule no longer fires on its fixture", "fixtures/loop_early_break.json")
    sites = {}
    for e in A.calls(r"Iterator>?::next$"):
        el = all_origins(vfield(A.d(e.extra["dargs"][0]), "[*]")) if e.extra.get("dargs") else set()
        if any(re.search(elem_pat, o) for o in el):
            sites[(e.fn, e.bb)] = e
    if not sites:
        chk.skip(rule, lab, "no loop over the request's vector found (consumed by combinators)")
        return
    for (fn, bb), e in sorted(sites.items()):
        ex = accum.early_exits(W.F.get(fn), bb)
        if ex is None:
            chk.skip(rule, lab + ":" + short_id(fn), "loop shape not recognised")
            continue
        chk.expect(not ex, rule, lab + ":" + short_id(fn), "the loop ends only when every element was processed (or with an error)",
                   "the loop over the request's vector can be left early (%d exit edge(s) to the normal continuation): later elements are silently skipped" % len(ex), where(e))


def positions(v):
    """constant element positions a value was read at (`x[0]`, `x[1]`): set of constant texts, empty when not index-read"""
    t = v.fields.get("#may:idx")
    return {o for (o, ops) in t.atoms} if t is not None else set()


def opmap(v, cond=None):
    """origin -> union of operator classes over all atoms of v (flattened)."""
    m = {}
    for (o, ops) in flat_atoms(v):
        if cond is not None and not cond(o, ops):
            continue
        m[o] = frozenset(m.get(o, frozenset()) | ops)
    return m
