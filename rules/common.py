"""Shared guard definitions and helpers for the rule modules."""
import re
from base import (TryOk, PredTrue, PredFalse, Cut, CutPolicy, eq_test, data_test, pred_test, origin_match, rel, rel_sign, om, find_rel, rel_atoms,
                  flat_atoms, exact_origins, all_origins, ops_of, call_tag, where, short_id, show,
                  _bool_targets)
from absint import Val, V, EMPTY, vfield, vget, tagvals, const_of

NONPAYABLE = TryOk(r"cw_utils::nonpayable$")
ASSERT_OWNER = TryOk(r"cw_ownable::assert_owner$")
IS_OWNER = PredTrue("is_owner(info.sender)", pred_test("is_owner", r"^info\.sender$"))


def EQ(name, a, b):
    return PredTrue(name, eq_test(a, b))


class VariantEdge(Cut):
    """Remove the switch edges for the given variants of a discriminant read on a value whose
    origins match `pat`."""

    def __init__(self, name, pat, variants):
        self.name = name
        self.pat = pat
        self.variants = set(variants)

    def remove(self, I, frame, pname, pargs, positive, labels3, opv):
        if pname != "discr":
            return None
        if not origin_match(pargs[0], self.pat, require_all=False):
            return None
        explicit = {vn for (v, tb, vn) in labels3 if vn}
        out = set()
        for (v, tb, vn) in labels3:
            if vn in self.variants:
                out.add(tb)
            elif v == "otherwise" and any(x not in explicit for x in self.variants):
                out.add(tb)
        return out or None


class CallTrue(Cut):
    """Switch on the bool returned by a (local or external) function whose id matches: remove the
    edge taken when it returned true."""

    def __init__(self, callee_pat, name=None, truth=True):
        self.pat = callee_pat
        self.name = name or "true(%s)" % callee_pat
        self.truth = truth

    def remove(self, I, frame, pname, pargs, positive, labels3, opv):
        if not any(re.search(self.pat, c) for c in call_tag(opv)):
            return None
        return _bool_targets(labels3, self.truth)


class ValTrue(Cut):
    """Switch on a bool whose provenance satisfies `test(val)`: remove the edge taken when it is `truth`."""

    def __init__(self, name, test, truth=True):
        self.name = name
        self.test = test
        self.truth = truth

    def remove(self, I, frame, pname, pargs, positive, labels3, opv):
        if not self.test(opv):
            return None
        return _bool_targets(labels3, self.truth)


def sends_to(A, recipients):
    """BankMsg::Send aggregates whose recipient origins are within `recipients`"""
    out = []
    for e in A.aggs(r"BankMsg::Send$"):
        to = all_origins(A.d(field_val(e, "to_address")))
        if to and to <= set(recipients):
            out.append(e)
    return out


def no_effects(chk, W, rule, contract, vpath, cuts, label, which="execute", opaque=(), effects=None, extra=()):
    """Obligation: with the accept edges of `cuts` removed, no storage write / outflow is reachable
    from the entry variant.  Also requires that each cut matched at least one switch (anchor)."""
    pol = CutPolicy(list(cuts) + list(extra), opaque=opaque)
    A = W.run(contract, which, vpath, pol)
    inst = "%s/%s cut{%s}%s" % (contract, "/".join(vpath or ()), ",".join(c.name for c in cuts), label)
    if not any(c.name in pol.hits for c in cuts):
        chk.fail(rule, inst, "guard not found on any path of this handler: %s" % [c.name for c in cuts],
                 "entry %s" % A.entry)
        return False
    eff = effects(A) if effects else A.effects()
    if eff:
        e = eff[0]
        chk.fail(rule, inst, "%d effect(s) reachable without crossing the guard(s); first: %s %s" %
                 (len(eff), e.name.split("<")[0][-50:], e.extra.get("item", "")), where(e))
        return False
    chk.ok(rule, inst, "no storage write / outflow reachable once the accept edge(s) are removed; guard sites: %s" %
           {k: len(v) for k, v in pol.hits.items()})
    return True


def effects_signature(A):
    """Multiset description of the effects of one analysis (for WHO rules)."""
    sig = {}
    for e in A.writes():
        k = "write:%s.%s" % (e.extra.get("item"), e.extra.get("sop") or short_call(e.name))
        sig[k] = sig.get(k, 0) + 1
    for e in A.outflow_aggs():
        k = "msg:%s" % e.name.replace("cosmwasm_std::", "")
        sig[k] = sig.get(k, 0) + 1
    for e in A.outflow_calls():
        k = "call:%s" % short_call(e.name)
        if e.extra.get("submsg_mode"):
            k += ":" + e.extra["submsg_mode"]
        sig[k] = sig.get(k, 0) + 1
    return sig


def short_call(name):
    n = re.sub(r"<[^<>]*>", "", name)
    n = re.sub(r"<[^<>]*>", "", n)
    return "::".join([p for p in n.split("::") if p][-2:])


def field_val(ev, fname):
    """Operand value of field `fname` of an aggregate event."""
    for f, v in zip(ev.extra.get("fields", []), ev.vals):
        if f == fname:
            return v
    return EMPTY


def overrides(v, base, path=()):
    """Field paths of `v` whose value is not just the corresponding part of `base` (an origin
    string).  Returns list of (path tuple, Val)."""
    out = []
    for k, f in v.fields.items():
        if k.startswith("#"):
            continue
        sub = "%s[*]" % base if k == "[*]" else "%s.%s" % (base, k)
        only_base = {o for (o, ops) in f.atoms} <= {sub} and all(not ops for (o, ops) in f.atoms)
        if f.fields:
            out += overrides(f, sub, path + (k,))
            if not only_base:
                out.append((path + (k,), f))
        elif not only_base:
            out.append((path + (k,), f))
    return out


def may_tags(v, tag, depth=0):
    """All '#may:<tag>' markers anywhere in the tree."""
    out = set()
    if depth > 8:
        return out
    t = v.fields.get("#may:" + tag)
    if t is not None:
        out |= {o for (o, ops) in t.atoms}
    for k, f in v.fields.items():
        if not k.startswith("#"):
            out |= may_tags(f, tag, depth + 1)
    return out


def pool_writes(A):
    return [e for e in A.writes() if e.extra.get("item") == "POOLS"]


def status_reads(A):
    """flags of Store(POOLS).status read by any switch of the analysis."""
    flags = set()
    for e in A.switches():
        for (o, ops) in flat_atoms(e.vals[0]):
            m = re.match(r"Store\(POOLS\)\.status\.(\w+)$", o)
            if m:
                flags.add(m.group(1))
    return flags


def has_eq_between(v, pat_a, pat_b, depth=0):
    """does the value's computation contain `a == b` between values with exactly these origins?"""
    if depth > 8 or not hasattr(v, "atoms"):
        return False
    for a in v.atoms:
        if isinstance(a[0], tuple) and a[0][0] == "pred":
            if a[0][1] in ("eq", "ne") and len(a[0]) > 3:
                l, r = exact_origins(a[0][2]), exact_origins(a[0][3])
                if (l == pat_a and r == pat_b) or (l == pat_b and r == pat_a):
                    return True
            for x in a[0][2:]:
                if has_eq_between(x, pat_a, pat_b, depth + 1):
                    return True
    for k, f in v.fields.items():
        if has_eq_between(f, pat_a, pat_b, depth + 1):
            return True
    return False


def selects_by(A, pat_a, pat_b):
    """some position()/find()/filter()/loop decision of the analysis compares exactly these two origins for equality"""
    return any(has_eq_between(x, pat_a, pat_b) for e in A.events if e.kind in ("switch", "invoke") for x in e.vals)


def farm_enumeration_bound(chk, A, lab):
    """rewards / penalties must consider every farm of the LP token: the bound on the farms read from storage derives from
    the configured maximum or the hard cap, never from the pagination default alone"""
    takes = [e for e in A.calls(r"Iterator::take$") if all_origins(vfield(vfield(A.d(e.extra["dargs"][0]), "[*]"), "1")) == {"Store(FARMS)"}
             or "Store(FARMS)" in all_origins(vfield(A.d(e.extra["dargs"][0]), "[*]"))]
    ok = any(e.extra.get("item") == "FARMS" for e in A.reads())   # anchor; no bound at all means every farm is read
    seen = []
    for e in takes:
        o = {x for x in all_origins(e.extra["dargs"][1])}
        seen.append(sorted(o))
        ok = ok and ("Store(CONFIG).max_concurrent_farms" in o or o == {"Const(farm_manager::state::MAX_FARMS_LIMIT)"} or o == {"Const(100_u32)"})
    chk.expect(ok, "PROV-farm-enumeration-bound", lab, "the number of farms considered is bounded by the configured maximum / hard cap",
               "farms are enumerated with bound %s (the pagination default silently drops farms beyond it)" % seen, where(takes[0]) if takes else A.entry)


def no_truncation(chk, A, elem_pat, lab, rule):
    """no truncating / filtering adaptor sits between a request's vector and the loop that processes it"""
    bad = [e for e in A.calls(r"Iterator::(take|skip|step_by|take_while|skip_while|filter|filter_map|rev|nth)$")
           if any(re.search(elem_pat, o) for o in all_origins(vfield(A.d(e.extra["dargs"][0]), "[*]")))]
    chk.expect(not bad, rule, lab, "every element is processed, in order", "the processed sequence goes through `%s`" % (bad[0].name.rsplit("::", 1)[-1] if bad else ""),
               where(bad[0]) if bad else "")


def positions(v):
    """constant element positions a value was read at (`x[0]`, `x[1]`): set of constant texts, empty when not index-read"""
    t = v.fields.get("#may:idx")
    return {o for (o, ops) in t.atoms} if t is not None else set()


def opmap(v, cond=None):
    """origin -> union of operator classes over all atoms of v (flattened)."""
    m = {}
    for (o, ops) in flat_atoms(v):
        if cond is not None and not cond(o, ops):
            continue
        m[o] = frozenset(m.get(o, frozenset()) | ops)
    return m
