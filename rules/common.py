"""Shared guard definitions and helpers for the rule modules."""
import re
from base import (TryOk, PredTrue, PredFalse, Cut, CutPolicy, eq_test, data_test, pred_test, origin_match,
                  flat_atoms, exact_origins, all_origins, ops_of, call_tag, where, short_id, show,
                  _bool_targets)
from absint import Val, V, EMPTY, vfield, vget, tagvals, const_of

NONPAYABLE = TryOk(r"cw_utils::nonpayable$")
ASSERT_OWNER = TryOk(r"cw_ownable::assert_owner$")
IS_OWNER = PredTrue("is_owner(info.sender)", pred_test("is_owner", r"^info\.sender$"))


def EQ(name, a, b):
    return PredTrue(name, eq_test(a, b))


class VariantEdge(Cut):
    """Remove the switch edges for the given variants of a discriminant read on a value whose
    origins match `pat`."""

    def __init__(self, name, pat, variants):
        self.name = name
        self.pat = pat
        self.variants = set(variants)

    def remove(self, I, frame, pname, pargs, positive, labels3, opv):
        if pname != "discr":
            return None
        if not origin_match(pargs[0], self.pat, require_all=False):
            return None
        explicit = {vn for (v, tb, vn) in labels3 if vn}
        out = set()
        for (v, tb, vn) in labels3:
            if vn in self.variants:
                out.add(tb)
            elif v == "otherwise" and any(x not in explicit for x in self.variants):
                out.add(tb)
        return out or None


def no_effects(chk, W, rule, contract, vpath, cuts, label, which="execute", opaque=()):
    """Obligation: with the accept edges of `cuts` removed, no storage write / outflow is reachable
    from the entry variant.  Also requires that each cut matched at least one switch (anchor)."""
    pol = CutPolicy(cuts, opaque=opaque)
    A = W.run(contract, which, vpath, pol)
    inst = "%s/%s cut{%s}" % (contract, "/".join(vpath or ()), ",".join(c.name for c in cuts))
    missing = [c.name for c in cuts if c.name not in pol.hits]
    if missing:
        chk.fail(rule, inst, "guard not found on any path of this handler: %s" % missing,
                 "entry %s" % A.entry)
        return False
    eff = A.effects()
    if eff:
        e = eff[0]
        chk.fail(rule, inst, "%d effect(s) reachable without crossing the guard(s); first: %s %s" %
                 (len(eff), e.name.split("<")[0][-50:], e.extra.get("item", "")), where(e))
        return False
    chk.ok(rule, inst, "no storage write / outflow reachable once the accept edge(s) are removed; guard sites: %s" %
           {k: len(v) for k, v in pol.hits.items()})
    return True


def effects_signature(A):
    """Multiset description of the effects of one analysis (for WHO rules)."""
    sig = {}
    for e in A.writes():
        k = "write:%s.%s" % (e.extra.get("item"), e.extra.get("sop") or short_call(e.name))
        sig[k] = sig.get(k, 0) + 1
    for e in A.outflow_aggs():
        k = "msg:%s" % e.name.replace("cosmwasm_std::", "")
        sig[k] = sig.get(k, 0) + 1
    for e in A.outflow_calls():
        k = "call:%s" % short_call(e.name)
        if e.extra.get("submsg_mode"):
            k += ":" + e.extra["submsg_mode"]
        sig[k] = sig.get(k, 0) + 1
    return sig


def short_call(name):
    n = re.sub(r"<[^<>]*>", "", name)
    n = re.sub(r"<[^<>]*>", "", n)
    return "::".join([p for p in n.split("::") if p][-2:])


def field_val(ev, fname):
    """Operand value of field `fname` of an aggregate event."""
    for f, v in zip(ev.extra.get("fields", []), ev.vals):
        if f == fname:
            return v
    return EMPTY
