"""C02 - deposits and withdrawals never dilute other liquidity providers (structure around the numeric core)."""
import re
from rules.common import (opmap, PredTrue, PredFalse, VariantEdge, where, flat_atoms, all_origins, exact_origins, ops_of, show, origin_match,
                          eq_test, field_val, effects_signature)
from base import CutPolicy, rel_sign
from absint import EMPTY, vfield, tagvals, const_of

EXPLANATION = ("static analysis (MIR abstract interpretation): LP is minted only by ProvideLiquidity and burnt only by WithdrawLiquidity "
               "(complete call-site table); on the constant-product arm the minted shares are min (not max) of per-asset floor ratios, the "
               "initial deposit is isqrt(a*b) minus the locked minimum; withdrawal refunds are floor(reserve * floor(amount/supply)) with no "
               "round-up operator, the burnt amount is the amount paid in, the share ratio is amount over the queried supply; the minimum "
               "liquidity is minted to the contract on the supply==0 edge of both pool types")
ASSUMPTIONS = ["all inequalities (value per LP non-decreasing, stableswap D growth, 'at least that minus one unit') are numeric and not decided",
               "stableswap mint goes through Newton solvers: rounding direction undetermined, not claimed"]
TECHNIQUE = "static analysis: mint/burn call-site table, operator-class provenance (min vs max, rounding direction), pairing on the empty-pool edge, constant-position tags on min operands, sibling agreement of call sites, withdrawal debit-by-denom and switch cut shared with C01/C17"
LEVEL_TEXT = "Structural obligations over all paths of ProvideLiquidity / WithdrawLiquidity; exhaustive over CFG paths and message variants."
LEVEL_NOTE = "Not decided: every inequality of the statement; the stableswap mint amount."
PM = "pool_manager"
ASSUME_CP = VariantEdge("assume ConstantProduct", r"^Store\(POOLS\)\.pool_type$", ["StableSwap"])
ASSUME_SS = VariantEdge("assume StableSwap", r"^Store\(POOLS\)\.pool_type$", ["ConstantProduct"])
def _supply_is_zero(pn, pa):
    """+1 when the occurrence asserts `supply == 0` (== zero(), is_zero(), <= 0), -1 when it asserts the negation (> 0, 0 < supply)"""
    sup = lambda v: hasattr(v, "atoms") and exact_origins(v) == {"Query(supply)"}      # noqa: E731
    zero = lambda v: hasattr(v, "atoms") and bool(all_origins(v)) and all(o.startswith("Const(0") for o in all_origins(v))      # noqa: E731
    if pn == "is_zero" and pa and sup(pa[0]):
        return 1
    if len(pa) > 1 and ((sup(pa[0]) and zero(pa[1])) or (sup(pa[1]) and zero(pa[0]))):
        first = sup(pa[0])
        if pn == "eq":
            return 1
        if pn in ("gt", "lt"):
            return -1 if (pn == "gt") == first else 0          # supply > 0  /  0 < supply
        if pn in ("le", "ge"):
            return 1 if (pn == "le") == first else 0           # supply <= 0 /  0 >= supply
    return 0


EMPTY_POOL = PredFalse("assume total_shares == 0", _supply_is_zero)
FUNDED_POOL = PredTrue("assume total_shares != 0", _supply_is_zero)
NOT_SINGLE = PredTrue("assume multi-asset deposit", eq_test(r"^info\.funds\[\*\]$", r"^Const\(1_usize\)$"))
FLOORS = {"WHO-mint-burn": 10, "ROUND-withdraw": 1, "PROV-cp-shares": 2}


def mints(A):
    return A.calls_id(r"lp_common::mint_lp_token_msg$") + A.calls_id(r"tokenfactory::mint::mint$")


def burns(A):
    return A.calls_id(r"lp_common::burn_lp_asset_msg$") + A.calls_id(r"tokenfactory::burn::burn$")


def run(W, chk):
    from rules.common import borrow
    borrow(W, chk, "C01", {"PROV-withdraw-same-vector"}, "a withdrawal debits each reserve by exactly what it pays for that asset")
    borrow(W, chk, "C17", {"CUT-status"}, "redemption is gated by the withdrawals switch and by no other")
    borrow(W, chk, "C14", {"PROV-half", "AGREE-buffer"}, "a single-asset deposit is credited with exactly what was paid in (the half swapped is the half kept)")
    paths, _ = W.variant_paths(PM, "execute")
    for which, vp in [("execute", p) for p in paths] + [("reply", None), ("instantiate", None), ("migrate", None)]:
        A = W.run(PM, which, vp)
        m, b = len(A.calls_id(r"lp_common::mint_lp_token_msg$")), len(A.calls_id(r"lp_common::burn_lp_asset_msg$"))
        raw = len(A.calls_id(r"tokenfactory::(mint::mint|burn::burn)$")) - m - b
        want = (4, 0) if vp == ("ProvideLiquidity",) else (0, 1) if vp == ("WithdrawLiquidity",) else (0, 0)
        chk.expect((m, b) == want and raw == 0, "WHO-mint-burn", "/".join(vp or (which,)), "mint sites %d, burn sites %d" % (m, b),
                   "LP mint/burn sites here: mint %d burn %d raw %d, expected %s" % (m, b, raw, want), A.entry)

    # ---- constant product, funded pool: shares = min of floor ratios
    pol = CutPolicy([ASSUME_CP, FUNDED_POOL, NOT_SINGLE])
    A = W.run(PM, "execute", ("ProvideLiquidity",), pol)
    um = [e for e in A.calls_id(r"lp_common::mint_lp_token_msg$") if "msg.ProvideLiquidity.receiver" in all_origins(e.extra["dargs"][1])]
    chk.expect(len(um) == 1, "PROV-cp-shares", "anchor", "one mint to the receiver", "%d receiver mints" % len(um), A.entry)
    for e in um:
        m = opmap(e.extra["dargs"][3], lambda o, ops: "key" not in ops)
        src = {o for o in m if not o.startswith("Const(")}
        allops = set().union(*[m[o] for o in src]) if src else set()
        ok = src == {"Query(supply)", "info.funds[*].amount", "Store(POOLS).assets[*].amount"} and "min" in allops and "max" not in allops \
            and "div_ceil" not in allops and "div:r" in m["Store(POOLS).assets[*].amount"] and "div:l" in m["info.funds[*].amount"]
        unmin = sorted({o for (o, ops) in flat_atoms(e.extra["dargs"][3]) if o in ("info.funds[*].amount", "Store(POOLS).assets[*].amount") and "min" not in ops and "key" not in ops})
        chk.expect(not unmin, "PROV-cp-shares", "funded pool: every share is bounded", "no per-asset share reaches the mint without passing through the min",
                   "a per-asset share (%s) can reach the minted amount without passing through `min` (e.g. when the running minimum is still zero)" % unmin, where(e))
        chk.expect(ok, "PROV-cp-shares", "funded pool", "shares = min_i floor(deposit_i * supply / reserve_i)",
                   "constant-product shares computed as %s" % {k: sorted(v) for k, v in m.items()}, where(e))
    # the min is over the shares of two different assets (when they are picked by constant position)
    from rules.common import positions
    mins = [e for e in A.calls(r"cmp::min$|Ord::min$") if len(e.extra["dargs"]) == 2 and
            {"Query(supply)", "info.funds[*].amount"} <= all_origins(e.extra["dargs"][0]) | all_origins(e.extra["dargs"][1])]
    pm = [(positions(e.extra["dargs"][0]), positions(e.extra["dargs"][1]), e) for e in mins]
    pm = [t for t in pm if t[0] and t[1]]
    if pm:
        for (p0, p1, e) in pm:
            chk.expect(not (p0 & p1), "PROV-cp-shares", "min operands", "min over the shares of different assets (positions %s / %s)" % (sorted(p0), sorted(p1)),
                       "min(shares%s, shares%s): both operands are the same asset's share, the other asset no longer limits the mint" % (sorted(p0), sorted(p1)), where(e))
    else:
        chk.skip("PROV-cp-shares", "min operands", "the per-asset shares are not picked by constant position")
    # ---- constant product, empty pool
    pol = CutPolicy([ASSUME_CP, EMPTY_POOL, NOT_SINGLE])
    A = W.run(PM, "execute", ("ProvideLiquidity",), pol)
    ms = A.calls_id(r"lp_common::mint_lp_token_msg$")
    selfm = [e for e in ms if exact_origins(e.extra["dargs"][1]) == {"env.contract.address"} and
             exact_origins(e.extra["dargs"][3]) == {"Const(mantra_dex_std::lp_common::MINIMUM_LIQUIDITY_AMOUNT)"}]
    chk.expect(len(selfm) == 1, "PAIR-minimum-liquidity", "constant product", "MINIMUM_LIQUIDITY_AMOUNT minted to the contract on the first deposit",
               "first constant-product deposit: %d minimum-liquidity mints to the contract" % len(selfm), A.entry)
    um = [e for e in ms if "msg.ProvideLiquidity.receiver" in all_origins(e.extra["dargs"][1])]
    for e in um:
        m = opmap(e.extra["dargs"][3])
        ok = "sqrt_floor" in m.get("info.funds[*].amount", set()) and {"sat", "sub:r"} <= m.get("Const(mantra_dex_std::lp_common::MINIMUM_LIQUIDITY_AMOUNT)", set()) \
            and not [o for o in m if o.startswith("Store(POOLS).assets") or o.startswith("Query(")]
        chk.expect(ok, "PROV-cp-shares", "empty pool", "initial shares = isqrt(a*b) - MINIMUM_LIQUIDITY_AMOUNT (saturating)",
                   "initial constant-product shares computed as %s" % {k: sorted(v) for k, v in m.items()}, where(e))
    # ---- stableswap, empty pool: minimum liquidity minted to the contract
    pol = CutPolicy([ASSUME_SS, EMPTY_POOL, NOT_SINGLE])
    A = W.run(PM, "execute", ("ProvideLiquidity",), pol)
    amount_scale_uses_own_decimals(chk, W.run(PM, "execute", ("ProvideLiquidity",), CutPolicy([ASSUME_SS, FUNDED_POOL, NOT_SINGLE])), "stableswap deposit")
    # sibling agreement: what is withheld from the first depositor and what is minted to the contract are scaled from the same
    # (min decimals, max decimals) pair - every first-party call fed only by the pool's decimals gets the same operator classes per argument
    sig = {}
    for e in A.events:
        da = e.extra.get("dargs") if e.kind == "call" and e.extra.get("rid") else None
        if not da or len(da) != 2 or any({o for o in all_origins(x) if not o.startswith("Const(")} != {"Store(POOLS).asset_decimals[*]"} for x in da):
            continue
        sig.setdefault(e.name, []).append((tuple(tuple(sorted(set().union(*opmap(x).values()) & {"min", "max"})) for x in da), e))
    for nm, lst in sorted(sig.items()):
        kinds = {k for k, _ in lst}
        if len(lst) >= 2:
            chk.expect(len(kinds) == 1 and all(a != b for (a, b) in kinds), "AGREE-minimum-liquidity-scale", nm.rsplit("::", 1)[-1],
                       "%d call sites scale the locked minimum from the same (min, max) decimals" % len(lst),
                       "call sites of %s disagree on their decimals arguments %s: the amount withheld from the depositor and the amount locked differ" % (nm, sorted(kinds)), where(lst[0][1]))
    selfm = [e for e in A.calls_id(r"lp_common::mint_lp_token_msg$") if exact_origins(e.extra["dargs"][1]) == {"env.contract.address"} and
             "Const(mantra_dex_std::lp_common::MINIMUM_LIQUIDITY_AMOUNT)" in all_origins(e.extra["dargs"][3]) and
             {o for o in all_origins(e.extra["dargs"][3]) if not o.startswith("Const(")} <= {"Store(POOLS).asset_decimals[*]"}]
    chk.expect(len(selfm) == 1, "PAIR-minimum-liquidity", "stableswap", "scaled minimum liquidity minted to the contract on the first deposit",
               "first stableswap deposit: %d minimum-liquidity mints to the contract" % len(selfm), A.entry)

    # ---- withdrawal
    A = W.run(PM, "execute", ("WithdrawLiquidity",))
    sends = A.aggs(r"BankMsg::Send$")
    chk.expect(len(sends) == 1, "ROUND-withdraw", "anchor", "one refund Send", "%d Sends in WithdrawLiquidity" % len(sends), A.entry)
    for e in sends:
        am = opmap(A.d(vfield(vfield(field_val(e, "amount"), "[*]"), "amount")), lambda o, ops: "key" not in ops)
        allops = set().union(*am.values()) if am else set()
        src = {o for o in am if not o.startswith("Const(")}
        ok = src == {"Store(POOLS).assets[*].amount", "info.funds[*].amount", "Query(supply)"} and "div_ceil" not in allops and "div_floor" in allops \
            and "div:r" in am["Query(supply)"] and "div:l" in am["info.funds[*].amount"] and "max" not in allops
        chk.expect(ok, "ROUND-withdraw", "refund", "refund_i = floor(reserve_i * floor(amount / supply))",
                   "refund computed as %s" % {k: sorted(v) for k, v in am.items()}, where(e))
        chk.expect(exact_origins(A.d(field_val(e, "to_address"))) == {"info.sender"}, "ROUND-withdraw", "recipient", "refund to the sender",
                   "refund to %s" % sorted(all_origins(A.d(field_val(e, "to_address")))), where(e))
    for e in A.calls_id(r"lp_common::burn_lp_asset_msg$"):
        da = e.extra["dargs"]
        chk.expect(exact_origins(da[2]) == {"info.funds[*].amount"} and not ops_of(da[2]) and exact_origins(da[0]) == {"Store(POOLS).lp_denom"},
                   "PROV-burn", "withdraw", "burns exactly the LP paid in, of the pool's LP denom", "burn(%s, %s)" % (show(da[0])[:80], show(da[2])[:120]), where(e))
    g = PredTrue("share_ratio <= 1", lambda pn, pa: rel_sign(pn, pa, lambda v: "Query(supply)" in all_origins(v), "<=", lambda v: all_origins(v) <= {"Const(1)"} and bool(all_origins(v))))
    pol = CutPolicy([g])
    B = W.run(PM, "execute", ("WithdrawLiquidity",), pol)
    chk.expect(bool(pol.hits) and not B.effects(), "CUT-share-ratio", "withdraw", "no effect unless amount/supply <= 1",
               "withdrawal proceeds without the share-ratio sanity check (found %s)" % bool(pol.hits), B.entry)
    zero_refunds_dropped(chk, A)
    mp = [e for e in A.calls(r"cw_utils::must_pay$")]
    chk.expect(len(mp) == 1 and exact_origins(mp[0].extra["dargs"][1]) == {"Store(POOLS).lp_denom"}, "PROV-burn", "must_pay", "LP paid in must be the pool's LP denom",
               "must_pay denom %s" % [sorted(all_origins(e.extra["dargs"][1])) for e in mp], A.entry)


def zero_refunds_dropped(chk, A):
    """a refund of zero units is left out of the bank message (a Send carrying a zero coin is rejected by the bank module, which would
    block the redemption of any LP amount whose share of one asset rounds to zero): the decision over a refund amount is strict"""
    from rules.common import pred_tree_has
    strict, loose = [], []

    def is_refund(v):
        m = opmap(v)
        return "Store(POOLS).assets[*].amount" in m and "div_floor" in set().union(*m.values())

    def zero(v):
        o = all_origins(v)
        return bool(o) and all(x.startswith("Const(") for x in o)

    def t_strict(pn, pa):
        if pn in ("is_zero",) and pa and is_refund(pa[0]):
            return True
        return pn in ("gt", "lt", "eq", "ne") and len(pa) > 1 and ((is_refund(pa[0]) and zero(pa[1])) or (is_refund(pa[1]) and zero(pa[0])))

    def t_loose(pn, pa):
        return pn in ("ge", "le") and len(pa) > 1 and ((is_refund(pa[0]) and zero(pa[1])) or (is_refund(pa[1]) and zero(pa[0])))
    for e in A.events:
        if e.kind in ("switch", "invoke") and e.vals:
            for v in e.vals:
                if pred_tree_has(v, t_strict):
                    strict.append(e)
                if pred_tree_has(v, t_loose):
                    loose.append(e)
        r = e.extra.get("ret") if e.kind in ("invoke", "call") else None
        if r is not None and hasattr(r, "atoms"):
            if pred_tree_has(r, t_strict):
                strict.append(e)
            if pred_tree_has(r, t_loose):
                loose.append(e)
    if not strict and not loose:
        chk.skip("LIVE-zero-refund", "WithdrawLiquidity", "no decision on a refund amount against zero found")
        return
    chk.expect(bool(strict) and not loose, "LIVE-zero-refund", "WithdrawLiquidity", "zero refunds are filtered out by a strict comparison",
               "refund amounts are compared with zero non-strictly (%d site(s)): a zero coin stays in the bank message" % len(loose),
               where((loose or strict)[0]))


def amount_scale_uses_own_decimals(chk, A, lab):
    """unit agreement on the deposit side: wherever an asset amount is multiplied / divided by a power of ten derived from the pool's
    decimals, the exponent is `max decimals - that asset's own decimals` - the pool's *minimum* decimals never enters (a three-precision
    pool would have its middle asset mis-scaled)"""
    dec = lambda s: bool(s) and all(x.endswith("asset_decimals[*]") or x.startswith("Const(") for x in s) and any(x.endswith("asset_decimals[*]") for x in s)   # noqa: E731
    amt = lambda s: bool(s) and all(x in ("info.funds[*].amount", "Store(POOLS).assets[*].amount") or x.startswith("Const(") for x in s) and \
        any(not x.startswith("Const(") for x in s)   # noqa: E731
    sites = []
    for e in A.calls(r"::(checked_mul|checked_div|mul|div|multiply_ratio|checked_multiply_ratio)$"):
        da = e.extra.get("dargs", [])
        if len(da) != 2:
            continue
        o0, o1 = all_origins(da[0]), all_origins(da[1])
        if (dec(o0) and amt(o1)) or (dec(o1) and amt(o0)):
            sites.append((e, da[0] if dec(o0) else da[1]))
    if not sites:
        chk.skip("UNIT-amount-scale", lab, "no amount x 10^(decimals) scaling found in this shape")
        return
    bad = [(e, d) for (e, d) in sites if any("min" in ops for o, ops in opmap(d).items() if o.endswith("asset_decimals[*]"))]
    chk.expect(not bad, "UNIT-amount-scale", lab, "%d amount scalings use max decimals and the asset's own decimals only" % len(sites),
               "an asset amount is scaled by a power of ten that involves the pool's minimum decimals: %s" %
               ({k: sorted(v) for k, v in opmap(bad[0][1]).items()} if bad else ""), where(bad[0][0]) if bad else "")
