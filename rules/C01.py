"""C01 - pool reserves are always fully backed by the pool manager's real balances (structural premises)."""
import re
from rules.common import (opmap, selects_by, PredTrue, PredFalse, TryOk, where, flat_atoms, all_origins, exact_origins, ops_of, show, origin_match, eq_test,
                          field_val, effects_signature, pool_writes, no_effects)
from rules import swapcore as sc
from base import CutPolicy, Check
from absint import EMPTY, vfield, tagvals, const_of
import rules.C14 as c14
import rules.C16 as c16
import rules.C08 as c08

EXPLANATION = ("static analysis (MIR abstract interpretation): premises of the custody induction for the pool manager. Complete table of every "
               "outgoing message constructor per message variant; swaps (direct and routed) add the full offer and deduct exactly what the "
               "three outgoing messages carry; every deposited coin is added (exact, checked) to the reserve of its own denom and nothing "
               "else is; a withdrawal subtracts from the reserves the very vector it sends; pool creation forwards only the exact creation "
               "fee behind the two funds-exactness guards; the single-asset deposit swaps floor(amount/2) through the public Swap, keeps "
               "its proceeds in the contract and validates both balances before the second leg; LP minted to the contract is either the "
               "locked minimum or is forwarded in full to the farm manager; no unchecked arithmetic reaches a reserve")
ASSUMPTIONS = ["the induction over messages (balance >= sum of reserves across pools sharing a token) stays on paper",
               "floor(D/2)*2 <= D leaves at most one unit", "tokens sent to the contract outside pool operations are out of scope"]
TECHNIQUE = "static analysis: effect-ownership table, same-value provenance at both ends of each transfer, checked-arithmetic classes on reserves"
LEVEL_TEXT = "Structural premises of the custody argument, exhaustive over message variants and CFG paths; the inequality itself is not computed."
LEVEL_NOTE = "Not decided: the inequality as a number; cross-pool sums."
PM = "pool_manager"
FLOORS = {"WHO-outflows": 10, "PROV-deposit-credited": 1, "PROV-withdraw-same-vector": 1}

# kinds of outgoing message per variant, with the recipient / target for transfers and contract calls.  Compared as SETS: merging
# identical constructor sites (or splitting one into two branches) is behaviour-preserving; a new kind or a new recipient is not
OUTFLOWS = {
    ("Swap",): {"msg:BankMsg::Send->info.sender|msg.Swap.receiver", "msg:BankMsg::Send->Store(CONFIG).fee_collector_addr", "msg:BankMsg::Burn"},
    ("ExecuteSwapOperations",): {"msg:BankMsg::Send->info.sender|msg.ExecuteSwapOperations.receiver", "msg:BankMsg::Send->Store(CONFIG).fee_collector_addr",
                                 "msg:BankMsg::Burn"},
    ("WithdrawLiquidity",): {"msg:BankMsg::Send->info.sender", "call:lp_common::burn_lp_asset_msg"},
    ("CreatePool",): {"msg:BankMsg::Send->Store(CONFIG).fee_collector_addr", "call:create_denom::create_denom"},
    ("ProvideLiquidity",): {"call:wasm_execute->env.contract.address", "call:wasm_execute->Store(CONFIG).farm_manager_addr", "call:lp_common::mint_lp_token_msg",
                            "call:SubMsg::reply_on_success"},
    ("reply",): {"call:wasm_execute->env.contract.address"},
}


def outflow_sig(A):
    sig = {}
    for e in A.outflow_aggs():
        if re.search(r"BankMsg::(Send|Burn)$", e.name):
            k = "msg:" + e.name.replace("cosmwasm_std::", "")
            if e.name.endswith("Send"):
                k += "->" + "|".join(sorted(all_origins(A.d(field_val(e, "to_address")))))
            sig[k] = sig.get(k, 0) + 1
    for e in A.calls(r"cosmwasm_std::wasm_execute$"):
        da = e.extra.get("dargs", [])
        tgt = "|".join(sorted(all_origins(da[0]))) if da else "?"
        k = "call:wasm_execute->" + tgt
        sig[k] = sig.get(k, 0) + 1
    for e in A.calls(r"cosmwasm_std::SubMsg::<"):
        if e.extra.get("submsg_mode"):
            k = "call:SubMsg::" + {"Success": "reply_on_success", "Error": "reply_on_error", "Always": "reply_always", "Never": "new"}[e.extra["submsg_mode"]]
            sig[k] = sig.get(k, 0) + 1
    for pat, k in ((r"lp_common::mint_lp_token_msg$", "call:lp_common::mint_lp_token_msg"), (r"lp_common::burn_lp_asset_msg$", "call:lp_common::burn_lp_asset_msg"),
                   (r"tokenfactory::create_denom::create_denom$", "call:create_denom::create_denom")):
        n = len(A.calls_id(pat))
        if n:
            sig[k] = n
    other = [e for e in A.outflow_aggs() if re.search(r"(WasmMsg|StakingMsg|DistributionMsg|IbcMsg|GovMsg)::", e.name)]
    for e in other:
        sig["msg:" + e.name] = sig.get("msg:" + e.name, 0) + 1
    return sig


def run(W, chk):
    from rules.common import borrow
    borrow(W, chk, "C04", {"PROV-no-lossy-accumulator"}, "fees debited from a reserve leave the contract")
    paths, _ = W.variant_paths(PM, "execute")
    runs = {}
    for which, vp in [("execute", p) for p in paths] + [("reply", None), ("instantiate", None), ("migrate", None)]:
        A = W.run(PM, which, vp)
        runs[vp or (which,)] = A
        sig = outflow_sig(A)
        want = OUTFLOWS.get(vp or (which,), set())
        chk.expect(set(sig) == set(want), "WHO-outflows", "/".join(vp or (which,)), "outgoing message constructors: %s" % sig,
                   "outgoing messages differ from the effect table: found %s expected %s" % (sig, want), A.entry)
    for c in ("pool_manager",):
        qp, _ = W.variant_paths(c, "query")
        for vp in qp:
            A = W.run(c, "query", vp)
            chk.expect(not outflow_sig(A) and not A.writes(), "WHO-outflows", "query/" + "/".join(vp), "queries have no effects", "query effects %s" % effects_signature(A), A.entry)

    # ---- swaps
    sc.swap_conservation(W, chk, ("Swap",), r"^info\.funds\[\*\]\.amount$", {"info.sender", "msg.Swap.receiver"}, "msg.Swap.ask_asset_denom", "Swap")
    sc.swap_conservation(W, chk, ("ExecuteSwapOperations",), r"^(info\.funds\[\*\]\.amount|Call\(helpers::compute_swap\)\.return_amount)$",
                         {"info.sender", "msg.ExecuteSwapOperations.receiver"}, "msg.ExecuteSwapOperations.operations[*].MantraSwap.token_out_denom", "Router")

    # ---- deposits: every coin credited to the reserve of its own denom
    A = runs[("ProvideLiquidity",)]
    for e in pool_writes(A):
        v = e.extra.get("value", EMPTY)
        am = opmap(vfield(vfield(vfield(v, "assets"), "[*]"), "amount"))
        ok = am == {"Store(POOLS).assets[*].amount": frozenset(["add"]), "info.funds[*].amount": frozenset(["add"])}
        chk.expect(ok, "PROV-deposit-credited", "ProvideLiquidity", "reserve_i += deposit_i (exact, checked add); nothing else is added",
                   "reserve update on deposit: %s" % {k: sorted(x) for k, x in am.items()}, where(e))
    okp = selects_by(A, {"Store(POOLS).assets[*].denom"}, {"info.funds[*].denom"})
    chk.expect(okp, "PROV-deposit-credited", "index-by-denom", "the credited reserve is found by the deposit's own denom",
               "reserve for a deposit is not selected by `pool_asset.denom == deposit.denom`", A.entry)
    g = PredTrue("all deposits are pool assets", lambda pn, pa: pn == "all" and origin_match(pa[0], r"^(Store\(POOLS\)\.assets\[\*\]\.denom|info\.funds\[\*\]\.denom)$"))
    no_effects(chk, W, "CUT-deposit-denoms", PM, ("ProvideLiquidity",), [g], "", effects=lambda X: pool_writes(X) + c14.buf_events(X, "save"))

    # ---- withdrawal: the vector sent is the vector subtracted
    A = runs[("WithdrawLiquidity",)]
    sends = A.aggs(r"BankMsg::Send$")
    pw = pool_writes(A)
    if sends and pw:
        sent = opmap(A.d(vfield(vfield(field_val(sends[0], "amount"), "[*]"), "amount")))
        sub = opmap(vfield(vfield(vfield(pw[0].extra.get("value", EMPTY), "assets"), "[*]"), "amount"))
        base = sub.pop("Store(POOLS).assets[*].amount", frozenset())
        same = set(sent) - {"Store(POOLS).assets[*].amount"} == set(sub) - {"Store(POOLS).assets[*].amount"} and \
            all({"sub", "sub:r"} <= sub[o] for o in sub if o != "Store(POOLS).assets[*].amount" and not o.startswith("Const(")) and "sub:l" in base and "sat" not in base and "wrap" not in base
        chk.expect(same, "PROV-withdraw-same-vector", "WithdrawLiquidity", "reserves -= refund (checked), refund = the vector sent to the sender",
                   "sent %s vs subtracted %s (reserve ops %s)" % (sorted(sent), sorted(sub), sorted(base)), where(pw[0]))
        den_s = all_origins(A.d(vfield(vfield(field_val(sends[0], "amount"), "[*]"), "denom")))
        chk.expect(den_s == {"Store(POOLS).assets[*].denom"}, "PROV-withdraw-same-vector", "denoms", "refund denoms are the pool's", "refund denoms %s" % sorted(den_s), where(sends[0]))
        okp = selects_by(A, {"Store(POOLS).assets[*].denom"}, {"Store(POOLS).assets[*].denom"})
        n_enum = len([e for e in A.calls(r"Iterator::enumerate$") if e.fn.startswith("pool_manager::liquidity")])
        chk.expect(okp and n_enum == 0, "PROV-withdraw-same-vector", "index-by-denom", "each refund is subtracted from the reserve with the refund's own denom",
                   "the reserve debited for a refund is not selected by denom (position-by-denom found: %s, positional enumerate: %d); after zero refunds "
                   "are filtered out the indices shift" % (okp, n_enum), A.entry)
    else:
        chk.fail("PROV-withdraw-same-vector", "WithdrawLiquidity", "anchors missing (sends %d, pool writes %d)" % (len(sends), len(pw)), A.entry)

    # ---- ARITH: no unchecked arithmetic reaches a reserve
    for vp, A in runs.items():
        for e in pool_writes(A):
            if vp == ("CreatePool",):
                continue
            ops = ops_of(vfield(vfield(vfield(e.extra.get("value", EMPTY), "assets"), "[*]"), "amount"))
            chk.expect(not (ops & {"sat", "wrap"}), "ARITH-reserves", "/".join(vp), "reserve arithmetic is checked (no saturating / wrapping)",
                       "reserve is updated with %s arithmetic" % sorted(ops & {"sat", "wrap"}), where(e))

    # ---- shared obligations: creation fee, single-asset leg, lock path
    for mod, rules in ((c16, ("PROV-creation-fee", "DEP-extra-funds", "DEP-fees-paid")), (c14, ("PROV-half", "BYCONSTR-swap-leg", "CUT-reply", "AGREE-reply-msg", "PAIR-buffer-removed")),
                       (c08, ("WHO-self-calls", "WHO-mints", "AGREE-lock-msg"))):
        sub = Check("C01")
        if mod is c08:
            mod.pool_side(W, sub)
        else:
            mod.run(W, sub)
        for o in sub.obligations:
            if o["rule"] in rules or (mod is c16 and o["rule"] == "CUT-create" and re.search(r"fees paid|extra funds", o["instance"])):
                chk.obligations.append(o)
    # LP minted to the contract is the locked minimum or is forwarded in full to the farm manager
    A = runs[("ProvideLiquidity",)]
    selfm = [e for e in A.calls_id(r"lp_common::mint_lp_token_msg$") if exact_origins(e.extra["dargs"][1]) == {"env.contract.address"}]
    fwd = [e for e in A.calls(r"cosmwasm_std::wasm_execute$") if exact_origins(e.extra["dargs"][0]) == {"Store(CONFIG).farm_manager_addr"}]
    okm = True
    shares = None
    for e in selfm:
        o = all_origins(e.extra["dargs"][3])
        if {x for x in o if not x.startswith("Const(")} <= {"Store(POOLS).asset_decimals[*]"}:
            continue   # minimum liquidity (constant or scaled by decimals)
        shares = set(flat_atoms(e.extra["dargs"][3]))
    for e in fwd:
        amt = set(flat_atoms(vfield(vfield(e.extra["dargs"][2], "[*]"), "amount")))
        den = exact_origins(vfield(vfield(e.extra["dargs"][2], "[*]"), "denom"))
        okm = okm and shares is not None and amt == shares and den == {"Store(POOLS).lp_denom"}
    chk.expect(okm and len(fwd) >= 1 and shares is not None, "PROV-lock-forwarded", "ProvideLiquidity",
               "LP minted to the contract for locking is forwarded in full (same value) as funds of the farm-manager call",
               "locked LP: minted-to-self and forwarded amounts differ (forward sites %d)" % len(fwd), where(fwd[0]) if fwd else A.entry)
