"""C07 - each user's reward is their weight share per epoch, however claims are scheduled (structural part)."""
import re
from rules.common import (opmap, PredTrue, where, flat_atoms, all_origins, exact_origins, ops_of, show, origin_match, field_val)
from base import CutPolicy
from rules.common import rel, rel_sign, om, find_rel
from absint import EMPTY, V, vfield, tagvals, const_of

EXPLANATION = ("static analysis (MIR abstract interpretation): Claim and the Rewards query obtain the amount from the same function with "
               "the same inputs (identical provenance after renaming the user); inside calculate_rewards the rewards do not depend on "
               "is_claim; the per-epoch reward is floor(emission * user / total) (round-down only); the emission window is "
               "[start_from, min(until, end-1)] and farms not started are skipped")
ASSUMPTIONS = ["schedule independence relates two histories and is not decided (its known breach, F3, was repaired)", "weights' numeric values are not decided"]
TECHNIQUE = "static analysis: provenance agreement of two entry points, non-interference on a constant argument, rounding-direction classes, enumeration-bound provenance and sibling agreement, single-floor rule, loop early-exit lint"
LEVEL_TEXT = "Structural obligations over all paths of Claim, Rewards and calculate_rewards; exhaustive over CFG paths."
LEVEL_NOTE = "Not decided: equality of totals across claim schedules; under-payment bounds."
FM = "farm_manager"
FLOORS = {"AGREE-claim-query": 1}


def norm(o):
    o = o.replace("info.sender", "USER").replace("msg.Rewards.address", "USER")
    o = o.replace("msg.Claim.until_epoch", "UNTIL").replace("msg.Rewards.until_epoch", "UNTIL")
    return o


def amap(v):
    m = {}
    for (o, ops) in flat_atoms(v):
        m.setdefault(norm(o), set()).update(ops)
    return {k: frozenset(x) for k, x in m.items()}


def run(W, chk):
    from rules.common import borrow
    borrow(W, chk, "C10", {"AGREE-twin-update", "CUT-withdraw-open-only"}, "the user's and the total weight snapshots move together, for the position's owner")
    A = W.run(FM, "execute", ("Claim",))
    Q = W.run(FM, "query", ("Rewards",))
    sends = A.aggs(r"BankMsg::Send$")
    ca = amap(A.d(vfield(vfield(field_val(sends[0], "amount"), "[*]"), "amount"))) if sends else {}
    qa = amap(vfield(vfield(vfield(Q.ret if Q.ret is not None else EMPTY, "total_rewards"), "[*]"), "amount"))
    chk.expect(bool(ca) and ca == qa, "AGREE-claim-query", "amount", "Claim pays and Rewards reports the same computation (%d origins)" % len(ca),
               "Claim and Rewards differ: only in claim %s ; only in query %s" % (
                   sorted((k, sorted(v)) for k, v in ca.items() if qa.get(k) != v)[:6], sorted((k, sorted(v)) for k, v in qa.items() if ca.get(k) != v)[:6]),
               where(sends[0]) if sends else A.entry)
    from rules.common import all_elements_processed
    for X, lab in ((A, "Claim"), (Q, "Rewards")):
        all_elements_processed(chk, W, X, r"^Store\((FARMS|POSITIONS)\)", lab, "LOOP-all-elements")   # every LP denom, every farm
    # exactness: the weight share is never materialised as a fixed-point Decimal (truncated at 18 digits) before it multiplies the
    # emission - floor(e * trunc(w/t)) differs from floor(e*w/t)
    for X, lab in ((A, "Claim"), (Q, "Rewards")):
        lossy = [e for e in X.calls(r"Decimal(256)?::(from_ratio|checked_from_ratio)$")
                 if any(o.startswith("Store(LP_WEIGHT_HISTORY)") for o in all_origins(e.extra["dargs"][0]) | all_origins(e.extra["dargs"][1]))]
        chk.expect(not lossy, "ROUND-reward", lab + ".single-floor", "the share weight/total multiplies the emission as an exact fraction (one floor)",
                   "the weight share is first truncated into a Decimal, then multiplied and floored again (pays up to a unit less per epoch, and breaks additivity)",
                   where(lossy[0]) if lossy else X.entry)
    # schedule independence of Claim{until_epoch}: the snapshot carried to the claimed epoch is the one in effect there
    from rules.C06 import carried_snapshot, UNTIL
    for e in A.writes():
        if e.extra.get("item") == "LP_WEIGHT_HISTORY" and e.extra.get("sop") == "save":
            m = opmap(vfield(e.extra.get("key", EMPTY), "2"))
            if set(m) and set(m) <= UNTIL and all(not ops for ops in m.values()):
                carried_snapshot(chk, e, m)
    from rules.common import farm_enumeration_bound
    farm_enumeration_bound(chk, A, "Claim", W)
    farm_enumeration_bound(chk, Q, "Rewards", W)
    # ---- best effort on the shared helper (skipped when it is not found under this name)
    fid = "farm_manager::farm::commands::calculate_rewards"
    if not W.has_fn(fid):
        chk.skip("NONDEP-is_claim", "calculate_rewards", "helper not found under this name; AGREE-claim-query above compares both entry points directly")
        ops = set()
        for v in ca.values():
            ops |= v
        chk.expect("div_floor" in ops and "div_ceil" not in ops and not (ops & {"wrap"}), "ROUND-reward", "Claim", "reward: round-down only", "reward operator classes: %s" % sorted(ops), A.entry)
        return
    cc = A.calls_id(r"farm::commands::calculate_rewards$")
    qc = Q.calls_id(r"farm::commands::calculate_rewards$")
    if cc and qc:
        for i, nm in ((2, "lp_denom"), (3, "receiver"), (4, "until_epoch")):
            a = {norm(o) for o in all_origins(cc[0].extra["dargs"][i])}
            b = {norm(o) for o in all_origins(qc[0].extra["dargs"][i])}
            chk.expect(a == b, "AGREE-claim-query", "arg:" + nm, "same %s" % nm, "calculate_rewards %s: claim %s vs query %s" % (nm, sorted(a), sorted(b)), where(cc[0]))
        chk.expect(const_of(cc[0].extra["dargs"][5]) == "true" and const_of(qc[0].extra["dargs"][5]) == "false", "AGREE-claim-query", "is_claim",
                   "claim passes true, query false", "is_claim flags: %s / %s" % (show(cc[0].extra["dargs"][5]), show(qc[0].extra["dargs"][5])), where(cc[0]))
    T = W.run_fn(fid, args={5: V("Const(true)")})
    F = W.run_fn(fid, args={5: V("Const(false)")})
    rt = vfield(vfield(T.ret, "ClaimRewards"), "rewards") if T.ret is not None else EMPTY
    rf = vfield(vfield(F.ret, "QueryRewardsResponse"), "rewards") if F.ret is not None else EMPTY
    at, af = amap(vfield(vfield(rt, "[*]"), "amount")), amap(vfield(vfield(rf, "[*]"), "amount"))
    chk.expect(bool(at) and at == af, "NONDEP-is_claim", "rewards", "rewards are computed identically for is_claim = true / false",
               "rewards depend on is_claim: %s" % sorted(set(at.items()) ^ set(af.items()))[:6], W.F.get(fid).span)
    ops = set()
    for v in at.values():
        ops |= v
    chk.expect("div_floor" in ops and "div_ceil" not in ops and not (ops & {"wrap"}), "ROUND-reward", "calculate_rewards",
               "reward = emission checked_mul_floor (user, total): round-down only", "reward operator classes: %s" % sorted(ops), W.F.get(fid).span)
    er = at.get("Store(FARMS).emission_rate")
    chk.expect(er is not None and "div_floor" in er, "ROUND-reward", "emission", "reward derives from the farm's emission_rate", "reward origins: %s" % sorted(at), W.F.get(fid).span)
    wh = [o for o in at if o.startswith("Store(LP_WEIGHT_HISTORY)") and "#key" not in o]
    chk.expect(bool(wh), "ROUND-reward", "weights", "reward derives from the LP weight snapshots", "reward does not use LP_WEIGHT_HISTORY values", W.F.get(fid).span)

    # ---- emission window
    if not W.has_fn("farm_manager::farm::commands::compute_farm_emissions"):
        chk.skip("PROV-emission-window", "compute_farm_emissions", "helper not found under this name")
        return
    E = W.run_fn("farm_manager::farm::commands::compute_farm_emissions")
    until = vfield(E.ret, "1") if E.ret is not None else EMPTY
    m = opmap(until)
    want = {"farm.preliminary_end_epoch": frozenset(["sub", "sub:l"]), "Const(1_u64)": frozenset(["sub", "sub:r"]), "current_epoch_id": frozenset()}
    chk.expect(m == want, "PROV-emission-window", "until", "emissions until min(until, end - 1)", "emission window end <- %s" % {k: sorted(v) for k, v in m.items()}, E.entry)
    gl = find_rel(E.switches(), om(r"^farm\.preliminary_end_epoch$"), "<=", om(r"^current_epoch_id$"))
    chk.expect(bool(gl), "PROV-emission-window", "guard", "chooses end-1 when end <= until", "comparison `preliminary_end_epoch <= until` not found", E.entry)
    em = vfield(vfield(E.ret, "0"), "[*]") if E.ret is not None else EMPTY
    chk.expect(exact_origins(em) == {"farm.emission_rate"}, "PROV-emission-window", "rate", "constant emission_rate per epoch", "per-epoch emission <- %s" % show(em), E.entry)
    # decisions on farm.start_epoch, whether written as `if .. { continue }` (switch) or as an iterator `.filter(..)` (closure result)
    from rules.common import pred_tree_has
    st_cmp = lambda pn, pa: pn in ("gt", "lt", "ge", "le") and len(pa) > 1 and any(exact_origins(x) == {"Store(FARMS).start_epoch"} for x in pa[:2])   # noqa: E731
    sk = [e for e in T.events if e.kind in ("switch", "invoke") and
          (any(pred_tree_has(v, st_cmp) for v in e.vals) or (hasattr(e.extra.get("ret"), "atoms") and pred_tree_has(e.extra["ret"], st_cmp)))]
    chk.expect(len(sk) >= 2, "CUT-farm-not-started", "calculate_rewards", "epochs before farm.start_epoch are skipped (%d decisions)" % len(sk),
               "start_epoch comparisons found: %d" % len(sk), W.F.get(fid).span)
