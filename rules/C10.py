"""C10 - LP weights: the total covers the sum of users' weights; the weight curve is sane (structural part)."""
import re
from rules.common import (opmap, PredTrue, PredFalse, where, flat_atoms, all_origins, exact_origins, ops_of, show, origin_match, data_test, rel)
from base import CutPolicy
from absint import EMPTY, vfield, tagvals, const_of

EXPLANATION = ("static analysis (MIR abstract interpretation): each position action writes the contract's and the user's weight snapshot at the "
               "same key epoch current+1 with the same weight delta - computed from the delta coin and the position's duration, clamped with "
               "max(.., amount) - added when filling and saturating-subtracted from the latest snapshot when closing; a withdrawal touches "
               "weights and clears the user's cursor/history only for a still-open position; the weight formula rejects durations "
               "outside [1 day, 1 year] (best effort on the helper)")
ASSUMPTIONS = ["total >= sum of users under floor rounding / saturating subtraction is a numeric history fact and is not decided", "<= 16x and monotonicity are not decided"]
TECHNIQUE = "static analysis: twin-write agreement of storage effects, operator-class provenance of the written deltas, carried-snapshot dependence shared with C06"
LEVEL_TEXT = "Structural obligations over all paths of the four position actions; exhaustive over CFG paths."
LEVEL_NOTE = "Not decided: numeric relation between total and per-user weights; curve shape."
FM = "farm_manager"
P = "msg.ManagePosition.action"
FLOORS = {"AGREE-twin-update": 8}
NEXT = {"Query(CurrentEpoch).id": frozenset(["add"]), "Const(1_u64)": frozenset(["add"])}


def wh_saves(A):
    """weight snapshot writes of a position action: LP_WEIGHT_HISTORY saves keyed at current+1"""
    return [e for e in A.writes() if e.extra.get("item") == "LP_WEIGHT_HISTORY" and e.extra.get("sop") == "save"
            and opmap(vfield(e.extra.get("key", EMPTY), "2")) == NEXT]


def run(W, chk):
    from rules.common import independent_of, zero_test
    independent_of(chk, W, "NONDEP-weights-vs-penalty", FM, ("ManagePosition", ".action", "Withdraw"), "emergency exit", "a penalty amount is zero",
                   zero_test(lambda v: any(o == "Store(CONFIG).emergency_unlock_penalty" for o in all_origins(v))),
                   lambda A: [e for e in A.writes() if e.extra.get("item") == "LP_WEIGHT_HISTORY" and e.extra.get("sop") == "save"],
                   "the weight of an emergency-withdrawn open position is removed whether or not any penalty amount is zero",
                   "the weight update of an emergency withdrawal depends on a penalty amount being (non-)zero: a penalty-free exit leaves the weight behind")
    from rules.common import borrow
    borrow(W, chk, "C06", {"DEP-carried-snapshot"}, "a weight change takes effect from the epoch after the operation, also across Claim{until_epoch}")
    spec = {
        # variant: (fills?, delta amount origins, duration origin, user address origins, denom origin)
        ("ManagePosition", ".action", "Create"): (True, {"info.funds[*].amount"}, P + ".Create.unlocking_duration", {"info.sender", P + ".Create.receiver"}, {"info.funds[*].denom"}),
        ("ManagePosition", ".action", "Expand"): (True, {"info.funds[*].amount"}, "Store(POSITIONS).unlocking_duration", {"Store(POSITIONS).receiver"}, {"info.funds[*].denom"}),
        ("ManagePosition", ".action", "Close"): (False, {"Store(POSITIONS).lp_asset.amount", P + ".Close.lp_asset.amount"}, "Store(POSITIONS).unlocking_duration", {"info.sender"},
                                                 {"Store(POSITIONS).lp_asset.denom"}),
        ("ManagePosition", ".action", "Withdraw"): (False, {"Store(POSITIONS).lp_asset.amount"}, "Store(POSITIONS).unlocking_duration", {"info.sender"},
                                                    {"Store(POSITIONS).lp_asset.denom"}),
    }
    for vp, (fill, amt, dur, user, den) in sorted(spec.items()):
        A = W.run(FM, "execute", vp)
        lab = vp[-1]
        ws = wh_saves(A)
        # two write sites (contract, user) or one site executed for both addresses (a loop over [contract, user])
        chk.expect(len(ws) in (1, 2), "AGREE-twin-update", lab, "snapshot writes at current+1 for the contract and for the user", "%d snapshot writes at current+1" % len(ws), A.entry)
        if len(ws) not in (1, 2):
            continue
        if len(ws) == 1:
            ws = [ws[0], ws[0]]
        k = [e.extra.get("key", EMPTY) for e in ws]
        addr = [all_origins(vfield(x, "0")) for x in k]
        dens = [all_origins(vfield(x, "1")) for x in k]
        if ws[0] is ws[1]:
            okk = addr[0] == {"env.contract.address"} | user and dens[0] == den
        else:
            okk = {"env.contract.address"} in addr and user in addr and dens[0] == dens[1] == den
        chk.expect(okk, "AGREE-twin-update", lab + ".keys", "snapshots at (contract | position owner, position's LP denom, current+1)",
                   "snapshot keys: addresses %s / %s denoms %s / %s" % (sorted(addr[0]), sorted(addr[1]), sorted(dens[0]), sorted(dens[1])), where(ws[0]))
        vm = [opmap(e.extra.get("value", EMPTY), lambda o, ops: "key" not in ops) for e in ws]
        base = [m.get("Store(LP_WEIGHT_HISTORY)") for m in vm]
        want = frozenset(["add"]) if fill else frozenset(["sat", "sub", "sub:l"])
        delta = [{o: x for o, x in m.items() if o != "Store(LP_WEIGHT_HISTORY)" and not o.startswith("Const(")} for m in vm]
        okv = base[0] == want and base[1] == want and delta[0] == delta[1] and bool(delta[0])
        chk.expect(okv, "AGREE-twin-update", lab + ".values", "both snapshots = latest %s the same weight delta" % ("+" if fill else "saturating-minus"),
                   "snapshot values differ / wrong direction: latest ops %s, deltas equal %s" % ([sorted(b or []) for b in base], delta[0] == delta[1]), where(ws[0]))
        d0 = delta[0]
        src_ok = set(d0) == amt | {dur} and all("max" in d0[o] for o in amt) and not any("div_ceil" in x for x in d0.values())
        chk.expect(src_ok, "PROV-weight-delta", lab, "delta = weight(delta coin, position duration) clamped with max(.., amount)",
                   "weight delta derives from %s" % {o: sorted(x & {"max", "min", "div_ceil"}) for o, x in d0.items()}, where(ws[0]))
    # withdraw: weights / cursor only touched for an open position
    op = PredTrue("position.open", data_test(r"^Store\(POSITIONS\)\.open$"))
    pol = CutPolicy([op])
    B = W.run(FM, "execute", ("ManagePosition", ".action", "Withdraw"), pol)
    touched = [e for e in B.writes() if e.extra.get("item") in ("LP_WEIGHT_HISTORY", "LAST_CLAIMED_EPOCH")]
    chk.expect(bool(pol.hits) and not touched, "CUT-withdraw-open-only", "Withdraw",
               "weights are subtracted and the user's cursor/history reconciled only for a still-open position",
               "withdrawing a closed position touches weights again (found guard %s): %s" % (bool(pol.hits), [e.extra.get("item") for e in touched][:4]),
               where(touched[0]) if touched else B.entry)
    for vp in (("ManagePosition", ".action", "Close"), ("ManagePosition", ".action", "Withdraw")):
        A = W.run(FM, "execute", vp)
        rc = [e for e in A.writes() if e.extra.get("item") == "LAST_CLAIMED_EPOCH" and e.extra.get("sop") == "remove" and exact_origins(e.extra.get("key", EMPTY)) == {"info.sender"}]
        rh = [e for e in A.writes() if e.extra.get("item") == "LP_WEIGHT_HISTORY" and e.extra.get("sop") == "remove"]
        chk.expect(len(rc) == 1 and len(rh) >= 1, "PAIR-reconcile", vp[-1], "the user's claim cursor and weight history are reconciled after the exit",
                   "reconciliation effects: cursor removals %d, history removals %d" % (len(rc), len(rh)), A.entry)
    # best effort: the weight helper on its own
    fid = "farm_manager::position::helpers::calculate_weight"
    if not W.has_fn(fid):
        chk.skip("CUT-duration-range", "calculate_weight", "helper not found under this name")
        return
    H = W.run_fn(fid)
    rng = PredTrue("duration in [DAY, YEAR]", lambda pn, pa: pn == "contains" and origin_match(pa[1], r"^unlocking_duration$"))
    pol = CutPolicy([rng])
    H2 = W.run_fn(fid, policy=pol)
    tv = tagvals(H2.ret, "#v:std::result::Result") if H2.ret is not None else {"Err"}
    if pol.hits:
        chk.expect(tv == {"Err"}, "CUT-duration-range", "calculate_weight", "durations outside the range are rejected before the formula",
                   "calculate_weight can succeed outside the duration range (variants %s)" % tv, H.entry)
        lo = W.F.const_literal("farm_manager::position::helpers::SECONDS_IN_DAY")
        hi = W.F.const_literal("farm_manager::position::helpers::SECONDS_IN_YEAR")
        if lo is not None and hi is not None:
            chk.expect(lo == "86400_u64" and hi == "31556926_u64", "CONST-duration-range", "DAY/YEAR", "86400 .. 31556926", "range constants %s .. %s" % (lo, hi), "")
    else:
        chk.skip("CUT-duration-range", "calculate_weight", "range check is not written as RangeInclusive::contains")
