"""C10 - LP weights: the total covers the sum of users' weights; the weight curve is sane (structural part)."""
import re
from rules.common import (opmap, PredTrue, PredFalse, where, flat_atoms, all_origins, exact_origins, ops_of, show, origin_match, data_test)
from base import CutPolicy
from absint import EMPTY, vfield, tagvals, const_of

EXPLANATION = ("static analysis (MIR abstract interpretation): update_weights writes the contract's and the user's snapshot at the same key "
               "epoch current+1 with the same weight delta, added when filling and saturating-subtracted when closing; every handler "
               "that changes an open amount calls it with the matching constant and the delta coin / the position's duration; "
               "reconcile_user_state follows close and emergency exits of open positions; calculate_weight clamps to max(computed, "
               "amount) and rejects durations outside [1 day, 1 year]")
ASSUMPTIONS = ["total >= sum of users under floor rounding / saturating subtraction is a numeric history fact and is not decided", "<= 16x and monotonicity are not decided"]
TECHNIQUE = "static analysis: twin-write agreement, call pairing with constant arguments, operator-class provenance"
LEVEL_TEXT = "Structural obligations over all paths of the four position actions, update_weights and calculate_weight."
LEVEL_NOTE = "Not decided: numeric relation between total and per-user weights; curve shape."
FM = "farm_manager"
P = "msg.ManagePosition.action"
FLOORS = {"AGREE-twin-update": 4, "PAIR-update-weights": 4}
NEXT = {"Query(CurrentEpoch).id": frozenset(["add"]), "Const(1_u64)": frozenset(["add"])}


def wh_saves(A):
    return [e for e in A.writes() if e.extra.get("item") == "LP_WEIGHT_HISTORY" and e.extra.get("sop") == "save" and e.fn.endswith("update_weights")]


def run(W, chk):
    spec = {
        ("ManagePosition", ".action", "Create"): ("true", {"info.funds[*]"}, {P + ".Create.unlocking_duration"}, {"info.sender", P + ".Create.receiver"}),
        ("ManagePosition", ".action", "Expand"): ("true", {"info.funds[*]"}, {"Store(POSITIONS).unlocking_duration"}, {"Store(POSITIONS).receiver"}),
        ("ManagePosition", ".action", "Close"): ("false", None, {"Store(POSITIONS).unlocking_duration"}, {"info.sender"}),
        ("ManagePosition", ".action", "Withdraw"): ("false", {"Store(POSITIONS).lp_asset"}, {"Store(POSITIONS).unlocking_duration"}, {"info.sender"}),
    }
    for vp, (fill, coin, dur, recv) in sorted(spec.items()):
        A = W.run(FM, "execute", vp)
        lab = vp[-1]
        uw = A.calls_id(r"position::commands::update_weights$")
        chk.expect(len(uw) == 1, "PAIR-update-weights", lab, "update_weights is called", "%d update_weights calls in %s" % (len(uw), lab), A.entry)
        for e in uw:
            da = e.extra["dargs"]
            okc = True
            if coin is not None:
                okc = exact_origins(da[3]) == coin and not ops_of(da[3])
            else:
                am = all_origins(vfield(da[3], "amount"))
                okc = am == {"Store(POSITIONS).lp_asset.amount", P + ".Close.lp_asset.amount"} and \
                    all_origins(vfield(da[3], "denom")) == {"Store(POSITIONS).lp_asset.denom"}
            ok = const_of(da[5]) == fill and okc and exact_origins(da[4]) == dur and all_origins(da[2]) == recv
            chk.expect(ok, "PAIR-update-weights", lab + ".args", "update_weights(receiver, delta coin, duration, fill=%s)" % fill,
                       "update_weights is called with receiver=%s coin=%s duration=%s fill=%s" % (
                           sorted(all_origins(da[2])), show(da[3])[:160], sorted(all_origins(da[4])), show(da[5])), where(e))
        ws = wh_saves(A)
        chk.expect(len(ws) == 2, "AGREE-twin-update", lab, "two snapshot writes (contract, user)", "%d snapshot writes in update_weights" % len(ws), A.entry)
        if len(ws) == 2:
            k = [e.extra.get("key", EMPTY) for e in ws]
            addr = [exact_origins(vfield(x, "0")) for x in k]
            ep = [opmap(vfield(x, "2")) for x in k]
            den = [all_origins(vfield(x, "1")) for x in k]
            okk = ep[0] == NEXT and ep[1] == NEXT and den[0] == den[1] and {"env.contract.address"} in addr and recv in [all_origins(vfield(x, "0")) for x in k]
            chk.expect(okk, "AGREE-twin-update", lab + ".keys", "contract and user snapshots at (addr, same denom, current+1)",
                       "snapshot keys: %s / %s epochs %s" % (sorted(addr[0]), sorted(addr[1]), [{a: sorted(b) for a, b in x.items()} for x in ep]), where(ws[0]))
            vm = []
            for e in ws:
                m = {}
                for (o, ops) in flat_atoms(e.extra.get("value", EMPTY)):
                    if "key" in ops:
                        continue
                    m.setdefault(o, set()).update(ops)
                vm.append(m)
            base = [m.get("Store(LP_WEIGHT_HISTORY)") for m in vm]
            want = {"add"} if fill == "true" else {"sat", "sub", "sub:l"}
            delta = [{o: frozenset(x) for o, x in m.items() if o not in ("Store(LP_WEIGHT_HISTORY)", "Const(0)")} for m in vm]
            okv = base[0] == want and base[1] == want and delta[0] == delta[1] and bool(delta[0])
            chk.expect(okv, "AGREE-twin-update", lab + ".values", "both snapshots = latest %s the same weight" % ("+" if fill == "true" else "-sat"),
                       "snapshot values differ / wrong direction: latest ops %s, deltas equal %s" % ([sorted(b or []) for b in base], delta[0] == delta[1]), where(ws[0]))
    # withdraw: weights only touched for an open position; reconcile after
    op = PredTrue("position.open", data_test(r"^Store\(POSITIONS\)\.open$"))
    pol = CutPolicy([op])
    B = W.run(FM, "execute", ("ManagePosition", ".action", "Withdraw"), pol)
    chk.expect(bool(pol.hits) and not B.calls_id(r"update_weights$") and not B.calls_id(r"reconcile_user_state$"), "CUT-withdraw-open-only", "Withdraw",
               "update_weights / reconcile_user_state only for a still-open position", "closed positions are re-subtracted on withdrawal", B.entry)
    for vp in (("ManagePosition", ".action", "Close"), ("ManagePosition", ".action", "Withdraw")):
        A = W.run(FM, "execute", vp)
        rc = A.calls_id(r"position::helpers::reconcile_user_state$")
        chk.expect(len(rc) == 1, "PAIR-reconcile", vp[-1], "reconcile_user_state is called", "%d reconcile_user_state calls" % len(rc), A.entry)
    # calculate_weight
    H = W.run_fn("farm_manager::position::helpers::calculate_weight")
    r = H.ret if H.ret is not None else EMPTY
    m = {}
    for (o, ops) in flat_atoms(r):
        m.setdefault(o, set()).update(ops)
    chk.expect("lp_asset.amount" in m and all("max" in ops for o, ops in m.items() if not o.startswith("Const(")), "PROV-weight-clamp", "calculate_weight", "weight = max(computed, amount)",
               "weight is not clamped with max(.., amount): %s" % {k: sorted(v) for k, v in list(m.items())[:5]}, H.entry)
    chk.expect("unlocking_duration" in m and "div_ceil" not in set().union(*m.values()), "PROV-weight-clamp", "inputs", "depends on amount and duration, round-down",
               "weight inputs %s" % sorted(m), H.entry)
    rng = PredTrue("duration in [DAY, YEAR]", lambda pn, pa: pn == "contains" and origin_match(pa[1], r"^unlocking_duration$"))
    pol = CutPolicy([rng])
    H2 = W.run_fn("farm_manager::position::helpers::calculate_weight", policy=pol)
    tv = tagvals(H2.ret, "#v:std::result::Result") if H2.ret is not None else {"Err"}
    chk.expect(bool(pol.hits) and tv == {"Err"}, "CUT-duration-range", "calculate_weight", "durations outside the range are rejected before the formula",
               "calculate_weight can succeed outside the duration range (guard found %s, variants %s)" % (bool(pol.hits), tv), H.entry)
    lo = W.F.const_literal("farm_manager::position::helpers::SECONDS_IN_DAY")
    hi = W.F.const_literal("farm_manager::position::helpers::SECONDS_IN_YEAR")
    chk.expect(lo == "86400_u64" and hi == "31556926_u64", "CONST-duration-range", "DAY/YEAR", "86400 .. 31556926", "range constants %s .. %s" % (lo, hi), "")
