"""Shared swap / fee rules used by C01, C04 and C12 (pool-manager)."""
import re
from rules.common import (where, flat_atoms, all_origins, exact_origins, ops_of, show, origin_match, field_val, effects_signature, overrides)
from base import CutPolicy
from absint import EMPTY, V, vfield, tagvals, const_of

PM = "pool_manager"
FEES = ["swap_fee_amount", "protocol_fee_amount", "burn_fee_amount", "extra_fees_amount"]
_CUT = {}


def cut_point(W):
    """The swap computation cut point, found by what it is rather than by name: the outermost function on the
    Swap path whose return type carries the six SwapComputation amounts."""
    key = W.facts_dir
    if key in _CUT:
        return _CUT[key]
    from absint import short_fn
    A = W.run(PM, "execute", ("Swap",))
    best = None
    for e in A.events:
        if e.kind != "call" or not e.extra.get("rid"):
            continue
        b = W.F.get(e.extra["rid"])
        if b is None or b.kind != "fn" or b.crate != PM:
            continue
        r = e.extra.get("ret")
        if r is None or not all(f in r.fields for f in ["return_amount", "slippage_amount"] + FEES):
            continue
        if "Store(POOLS)" not in {o for (o, ops) in flat_atoms(e.extra["dargs"][0])} if e.extra.get("dargs") else True:
            continue
        if best is None or len(e.ctx) < best[0]:
            best = (len(e.ctx), b.id)
    cs = best[1] if best else "pool_manager::helpers::compute_swap"
    _CUT[key] = (cs, "Call(%s)" % short_fn(cs))
    return _CUT[key]


class _Names:
    """origins of the cut point's result fields (resolved lazily per fact base)"""

    def bind(self, W):
        self.CS, self.C = cut_point(W)
        self.OUT = {self.C + ".return_amount", self.C + ".protocol_fee_amount", self.C + ".burn_fee_amount"}
        self.KEEP = {self.C + ".swap_fee_amount", self.C + ".extra_fees_amount"}
        return self


N = _Names()


def amap(v, drop_key=True):
    m = {}
    for (o, ops) in flat_atoms(v):
        if drop_key and "key" in ops:
            continue
        m.setdefault(o, set()).update(ops)
    return m


def swap_conservation(W, chk, vp, offer_pat, recv_origins, denom_origin, lab):
    """reserve update and outgoing messages of one swap-like variant, with compute_swap as a cut point"""
    N.bind(W)
    CS, C, OUT, KEEP = N.CS, N.C, N.OUT, N.KEEP
    offer_pat = offer_pat.replace("Call\\(helpers::compute_swap\\)", re.escape(C))
    pol = CutPolicy([], opaque=[CS])
    A = W.run(PM, "execute", vp, pol)
    pw = [e for e in A.writes() if e.extra.get("item") == "POOLS"]
    chk.expect(len(pw) == 1, "PROV-reserve-update", lab + ".anchor", "one POOLS.save (perform_swap)", "%d POOLS writes" % len(pw), A.entry)
    deducted = set()
    for e in pw:
        v = e.extra.get("value", EMPTY)
        am = amap(vfield(vfield(vfield(v, "assets"), "[*]"), "amount"))
        offer = {o for o in am if re.search(offer_pat, o)}
        calls = {o for o in am if o.startswith("Call(")}
        deducted = {o for o in calls if "sub" in am[o]}
        other = set(am) - offer - calls - {"Store(POOLS).assets[*].amount"}
        ok = bool(offer) and all("add" in am[o] for o in offer) and deducted == OUT and not (calls & KEEP) and not other \
            and not any(am[o] & {"sat", "wrap", "div_floor", "div_ceil", "mul"} for o in am)
        chk.expect(ok, "PROV-reserve-update", lab, "offer reserve += offer (checked); ask reserve -= return + protocol fee + burn fee (checked); "
                   "swap/extra fees stay in the pool",
                   "reserve update uses offer=%s deducts=%s keeps-out-of-pool=%s other=%s ops=%s" % (
                       sorted(offer), sorted(deducted), sorted(calls & KEEP), sorted(other), {k: sorted(x) for k, x in am.items()}), where(e))
    # outgoing messages
    sent = set()
    table = []
    for e in A.outflow_aggs():
        if e.name.endswith("BankMsg::Send"):
            to = tuple(sorted(all_origins(A.d(field_val(e, "to_address")))))
            coin = A.d(vfield(field_val(e, "amount"), "[*]"))
            table.append((e, "Send", to, coin))
        elif e.name.endswith("BankMsg::Burn"):
            coin = A.d(vfield(field_val(e, "amount"), "[*]"))
            table.append((e, "Burn", (), coin))
        else:
            chk.fail("WHO-swap-outflows", lab, "unexpected outgoing message %s" % e.name, where(e))
    exp = {("Send", tuple(sorted(recv_origins))): C + ".return_amount", ("Send", ("Store(CONFIG).fee_collector_addr",)): C + ".protocol_fee_amount",
           ("Burn", ()): C + ".burn_fee_amount"}
    seen = set()
    for (e, kind, to, coin) in table:
        want = exp.get((kind, to))
        am = amap(vfield(coin, "amount"))
        calls = {o for o in am if o.startswith("Call(")}
        extra = {o for o in am if not o.startswith("Call(") and not re.search(offer_pat, o)}
        good = want is not None and calls == {want} and not am[want] and not extra
        sent |= calls
        seen.add((kind, to))
        den = all_origins(vfield(coin, "denom"))
        good = good and den == {denom_origin}
        chk.expect(good, "PROV-swap-outflow", "%s:%s->%s" % (lab, kind, ",".join(to) or "burn"),
                   "%s carries exactly %s in the ask denom" % (kind, want),
                   "%s to %s carries %s (denom %s); expected exactly %s" % (kind, list(to), {k: sorted(x) for k, x in am.items()}, sorted(den), want), where(e))
    chk.expect(seen == set(exp), "WHO-swap-outflows", lab, "outflows = {return->receiver, protocol fee->fee collector, burn fee->burn}",
               "outflow set differs: missing %s unexpected %s" % (sorted(set(exp) - seen), sorted(seen - set(exp))), A.entry)
    chk.expect(sent == deducted and sent == OUT, "AGREE-deducted-equals-sent", lab, "what leaves the contract is exactly what is deducted from the ask reserve",
               "deducted from reserve %s but sent out %s" % (sorted(deducted), sorted(sent)), A.entry)
    # compute_swap is called on the stored pool, the offer coin and the requested ask denom; index lookup uses the same denoms
    for e in A.calls_id(re.escape(CS) + "$"):
        da = e.extra["dargs"]
        ok = exact_origins(without_key(da[0])) >= {"Store(POOLS)"} and bool(all_origins(vfield(da[1], "amount"))) and all_origins(da[2]) == {denom_origin}
        chk.expect(ok, "AGREE-compute-swap-args", lab, "compute_swap(stored pool, offer coin, requested ask denom)",
                   "compute_swap args: pool %s offer %s ask %s" % (sorted(all_origins(da[0]))[:3], show(da[1])[:120], sorted(all_origins(da[2]))), where(e))
    from rules.C11 import commit
    commit(chk, A, lab)
    return A


def without_key(v):
    return v


def fee_internals(W, chk):
    """inside the cut point (analysed on its own, parameters named after its arguments): each fee is a floor share of
    the gross output under its own configured share; the net return subtracts all four"""
    N.bind(W)
    b = W.F.get(N.CS)
    H = W.run_fn(N.CS, names=["pool_info", "offer_asset", "ask_asset_denom"])
    r = H.ret if H.ret is not None else EMPTY
    share = {"swap_fee_amount": "pool_info.pool_fees.swap_fee.share", "protocol_fee_amount": "pool_info.pool_fees.protocol_fee.share",
             "burn_fee_amount": "pool_info.pool_fees.burn_fee.share", "extra_fees_amount": "pool_info.pool_fees.extra_fees[*].share"}
    for f, src in share.items():
        m = amap(vfield(r, f))
        srcs = {o for o in m if o.startswith("pool_info.pool_fees")}
        ops = set().union(*m.values()) if m else set()
        chk.expect(srcs == {src} and "div_ceil" not in ops and "div_floor" in ops, "AGREE-fees", f,
                   "%s = floor(gross * %s)" % (f, src.split("pool_fees.")[1]), "%s derives from %s with ops %s" % (f, sorted(srcs), sorted(ops)), b.span)
    m = amap(vfield(r, "return_amount"))
    want = set(share.values())
    chk.expect(want <= set(m) and all("sub:r" in m[o] for o in want), "PROV-net-return", "return_amount",
               "net return = gross - swap - protocol - burn - extra fees", "net return subtracts only %s" % sorted(o for o in m if o.startswith("pool_info.pool_fees")), b.span)
    fc = H.calls_id(r"mantra_dex_std::fee::.*::compute$")
    selfs = sorted({tuple(sorted(exact_origins(e.extra["dargs"][0]))) for e in fc})
    want_s = [("pool_info.pool_fees.burn_fee",), ("pool_info.pool_fees.extra_fees[*]",), ("pool_info.pool_fees.protocol_fee",), ("pool_info.pool_fees.swap_fee",)]
    chk.expect(selfs == want_s, "AGREE-fees", "Fee::compute receivers", "swap / protocol / burn / each extra fee is computed from its own configured Fee",
               "Fee::compute is applied to %s" % selfs, b.span)
    bases = {frozenset(flat_atoms(e.extra["dargs"][1])) for e in fc}
    # constant-product and stableswap arms each have one gross amount; all fees of an arm share it
    chk.expect(1 <= len(bases) <= 2, "AGREE-fees", "Fee::compute amount", "all fees of a pool type are taken from the same gross amount",
               "%d different fee base amounts" % len(bases), b.span)
    for fb in W.F.fns("mantra_dex_std"):
        if re.search(r"::fee::\{impl#\d+\}::compute$", fb.id):
            F = W.run_fn(fb.id)
            ops = ops_of(F.ret) if F.ret is not None else set()
            chk.expect("div_floor" in ops and "div_ceil" not in ops, "ROUND-fee", "Fee::compute", "share of the amount rounded down", "Fee::compute ops %s" % sorted(ops), F.entry)


def swap_result_wiring(W, chk):
    """best effort (skipped when no function returns a `SwapResult`): the struct handed to the swap handlers is wired
    field by field to the cut point's same-named amounts"""
    N.bind(W)
    C = N.C
    cands = W.find_fns(PM, lambda b: "SwapResult" in b.locals[0] and "perform_swap" in b.locals[0])
    if not cands:
        chk.skip("AGREE-swap-result", "SwapResult", "no function returning swap::perform_swap::SwapResult")
        return None
    pol = CutPolicy([], opaque=[N.CS])
    P = W.run_fn(cands[0].id, policy=pol)
    r = P.ret if P.ret is not None else EMPTY
    for f, src in (("return_asset", "return_amount"), ("burn_fee_asset", "burn_fee_amount"), ("protocol_fee_asset", "protocol_fee_amount"),
                   ("swap_fee_asset", "swap_fee_amount"), ("extra_fees_asset", "extra_fees_amount")):
        o = vfield(vfield(r, f), "amount")
        chk.expect(exact_origins(o) == {C + "." + src} and not ops_of(o), "AGREE-swap-result", f, "SwapResult.%s.amount <- computed %s" % (f, src),
                   "SwapResult.%s.amount <- %s" % (f, sorted(all_origins(o))), P.entry)
    o = vfield(r, "slippage_amount")
    chk.expect(exact_origins(o) == {C + ".slippage_amount"}, "AGREE-swap-result", "slippage_amount", "same-named", "slippage <- %s" % sorted(all_origins(o)), P.entry)
    return P


def simulation_wiring(W, chk):
    N.bind(W)
    C = N.C
    pol = CutPolicy([], opaque=[N.CS])
    Q = W.run(PM, "query", ("Simulation",), pol)
    r = Q.ret if Q.ret is not None else EMPTY
    for f in ["return_amount", "slippage_amount"] + FEES:
        o = vfield(r, f)
        chk.expect(exact_origins(o) == {C + "." + f} and not ops_of(o), "AGREE-simulation", f, "SimulationResponse.%s <- computed %s (exact)" % (f, f),
                   "Simulation.%s <- %s ops %s" % (f, sorted(all_origins(o)), sorted(ops_of(o))), Q.entry)
    cs = Q.calls_id(re.escape(N.CS) + "$")
    chk.expect(len(cs) == 1, "AGREE-simulation", "single-source", "one swap computation", "%d swap computations in Simulation" % len(cs), Q.entry)
    for e in cs:
        da = e.extra["dargs"]
        ok = "Store(POOLS)" in exact_origins(da[0]) and exact_origins(da[1]) == {"msg.Simulation.offer_asset"} and exact_origins(da[2]) == {"msg.Simulation.ask_asset_denom"}
        keys = set()
        for r_ in Q.reads():
            if r_.extra.get("item") == "POOLS":
                keys |= all_origins(r_.extra.get("key", EMPTY))
        chk.expect(ok and keys == {"msg.Simulation.pool_identifier"}, "AGREE-simulation", "args", "computed on (stored pool[pool_identifier], offer_asset, ask denom)",
                   "simulation computes on pool %s offer %s ask %s" % (sorted(keys), sorted(all_origins(da[1])), sorted(all_origins(da[2]))), where(e))
    chk.expect(not Q.effects(), "T-query-pure", "Simulation", "no storage write / message reachable from the query", "query has effects %s" % effects_signature(Q), Q.entry)
    return Q


def hop_offers(A):
    """offer amounts fed to the swap computation (one entry per call site)"""
    N_ = N
    return [(e, amap(vfield(e.extra["dargs"][1], "amount")), e.extra["dargs"]) for e in A.calls_id(re.escape(N_.CS) + "$")]
