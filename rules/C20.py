"""C20 - rejected or partially failing operations leave no trace (code-dependent part).

Rollback on Err / failing plain sub-message is the VM's guarantee.  What the code can do to break
it is finite: reply modes that catch failures, reply handlers that swallow or write, Result values
that are swallowed after effects, raw storage access.  Each is enumerated over the whole program.
"""
import re
from facts import place as mkplace
from base import CutPolicy, Cut, where, show, exact_origins, all_origins, flat_atoms
from absint import tagvals, vfield, EMPTY, const_of, Val
from rules.common import effects_signature, PredTrue, pred_test, opmap, exact_origins
from rules.C15 import raw_storage_and_namespaces, CONTRACTS

EXPLANATION = ("static analysis: complete enumeration of SubMsg constructors and their reply modes over every execute/reply "
               "variant of the four contracts (abstract interpretation of MIR), effect-freedom of the tolerated reply handler, "
               "unknown reply ids end in Err, whole-crate scan of Result-swallowing call sites against a frozen table, raw storage scan")
ASSUMPTIONS = ["CosmWasm VM: a message returning Err, or any of whose non reply_on_error sub-messages fails, is rolled back in full",
               "fault injection at the k-th bank call is a runtime notion and is not performed"]
TECHNIQUE = "static analysis: effect/reply-mode enumeration by MIR abstract interpretation + swallowed-Result site table, response-structure provenance of tolerated refunds"
LEVEL_TEXT = ("Enumerates every construct through which an inner failure could turn into a committed partial state (SubMsg reply "
              "modes, reply handlers, swallowed Results, raw storage) over all paths of all entry points; each instance is compared "
              "with a frozen, reasoned table; anything new is a violation.")
LEVEL_NOTE = ("Trusted: VM rollback semantics. Not decided: behaviour under an injected failure of a specific bank/token-factory call "
              "(runtime).")

# allowed Result swallowers: (function id regex, swallowed callee regex) -> reason
SWALLOW_OK = [
    (r"farm_manager::manager::commands::create_farm::\{closure#0\}", r"is_farm_expired", "expiry probe of a read-only query; false = keep the farm"),
    (r"farm_manager::position::commands::withdraw_position::\{closure#0\}", r"is_farm_expired", "expiry probe of a read-only query"),
    (r"farm_manager::manager::commands::create_farm$", r"get_farm_by_identifier", "existence probe (read-only)"),
    (r"pool_manager::manager::commands::create_pool$", r"get_pool_by_identifier", "existence probe (read-only)"),
    (r"pool_manager::liquidity::commands::provide_liquidity$", r"query_wasm_smart", "Positions query probe: Err = position does not exist"),
    (r"pool_manager::helpers::validate_fees_are_paid::\{closure#\d+\}", r"checked_add", "pure arithmetic; overflow -> 0 is then rejected by the equality check"),
    (r"pool_manager::helpers::get_paid_fee_amount$", r"try_fold", "pure arithmetic sum"),
    (r"pool_manager::helpers::normalize_amount(_512)?$", r"checked_(div|mul)", "pure arithmetic, re-raised as None -> ?"),
    (r"pool_manager::helpers::compute_next_d$", r"checked_(add|sub|mul|div)", "pure arithmetic, re-raised as None -> ?"),
    (r"pool_manager::math::\{impl#0\}::decimal_with_precision", r"from_atomics", "map_err conversion (propagated)"),
]
FLOORS = {"ERR-submsg-table": 2, "ERR-reply-unknown-id": 2, "ERR-swallow-site": 8, "WHO-reply-effects": 1}
SWALLOWERS = {"ok", "unwrap_or", "unwrap_or_default", "unwrap_or_else", "is_ok", "is_err", "err", "is_ok_and",
              "is_err_and", "map_or", "map_or_else", "unwrap_or_else", "or", "or_else", "and", "iter", "into_iter"}


def recipients(v, depth=0):
    """origins of every `to_address` anywhere inside a message value"""
    out = set()
    if depth > 8:
        return out
    for k, f in v.fields.items():
        if k == "to_address":
            out |= all_origins(f)
        elif not k.startswith("#"):
            out |= recipients(f, depth + 1)
    return out


def run(W, chk):
    # ------------------------------------------------------------ 1. SubMsg constructor table
    seen = []
    for c in CONTRACTS:
        paths, _ = W.variant_paths(c, "execute")
        if c == "fee_collector" and not paths:
            paths = [("UpdateOwnership",)]
        entries = [("execute", vp) for vp in paths]
        if W.entry(c, "reply") is not None:
            entries.append(("reply", None))
        for (which, vp) in entries:
            A = W.run(c, which, vp)
            for e in A.calls(r"cosmwasm_std::SubMsg::<"):
                mode = e.extra.get("submsg_mode")
                if mode is None:
                    continue
                seen.append((c, which, vp, mode, e, A))
    for (c, which, vp, mode, e, A) in seen:
        inst = "%s/%s:%s" % (c, "/".join(vp or (which,)), mode)
        chain = " > ".join(e.chain())
        idv = e.extra["dargs"][1] if len(e.extra["dargs"]) > 1 else EMPTY
        if mode == "Never":
            chk.ok("ERR-submsg-table", inst, "plain sub-message (failure propagates)")
        elif mode == "Success" and c == "pool_manager" and vp == ("ProvideLiquidity",):
            okid = const_of(idv) in ("1_u64", "1")
            chk.expect(okid, "ERR-submsg-table", inst, "reply_on_success with SINGLE_SIDE_LIQUIDITY_PROVISION_REPLY_ID",
                       "reply id is %s" % show(idv), where(e))
        elif mode == "Error" and c == "farm_manager":
            msg = e.extra["dargs"][0]
            snd = vfield(vfield(vfield(msg, "Bank"), "0"), "Send")
            to = exact_origins(vfield(snd, "to_address"))
            am = opmap(vfield(vfield(vfield(snd, "amount"), "[*]"), "amount"))
            is_refund = to == {"Store(FARMS).owner"} and set(am) == {"Store(FARMS).farm_asset.amount", "Store(FARMS).claimed_amount"}
            okid = const_of(idv) in ("1_u64", "1")
            chk.expect(is_refund and okid, "ERR-submsg-table", inst,
                       "reply_on_error(id CLOSE_FARMS_ERR_REPLY_CODE) wraps exactly the close refund: Send(farm owner, budget - claimed)",
                       "the tolerated sub-message is not the farm-close refund (to %s, amount from %s) / id %s" % (sorted(to), sorted(am), show(idv)), where(e))
        else:
            chk.fail("ERR-submsg-table", inst, "sub-message with reply mode %s is not in the table "
                     "(reply_always / reply_on_error would let a failure commit partial state)" % mode, where(e))
    from rules.common import sends_to
    for vp in (("ManageFarm", ".action", "Close"), ("ManageFarm", ".action", "Create")):
        A = W.run("farm_manager", "execute", vp)
        refunds = sends_to(A, {"Store(FARMS).owner"})
        errs = [e for e in A.calls(r"cosmwasm_std::SubMsg::<") if e.extra.get("submsg_mode") == "Error"]
        el = vfield(vfield(A.ret if A.ret is not None else EMPTY, "messages"), "[*]")
        plain = Val(el.atoms, {k: f for k, f in el.fields.items() if k != "msg"})
        wrapped = vfield(el, "msg")
        # (origins ending in `.reply_on` are plain messages sharing the list with the wrapped ones: they have no reply mode)
        ro = {o for o in all_origins(vfield(el, "reply_on")) if o != "Const(Response)" and not o.endswith(".reply_on")}
        chk.expect(len(refunds) >= 1 and len(errs) == len(refunds) and "Store(FARMS).owner" in recipients(wrapped)
                   and "Store(FARMS).owner" not in recipients(plain) and ro == {"Const(Error)"}, "ERR-refund-tolerated", "/".join(vp),
                   "every close refund is sent as reply_on_error (a failing refund cannot block the close or the new farm)",
                   "close refunds %d, reply_on_error wrappers %d; refund among the plain messages of the response: %s; reply modes in the response %s" % (
                       len(refunds), len(errs), "Store(FARMS).owner" in recipients(plain), sorted(ro)), A.entry)
    # one tolerated refund per closed farm: the refund is built in the same loop iteration that removes the farm (a refund message
    # that collects several farms' coins would fail as a whole when one denom cannot be sent, and the farms are removed regardless)
    from rules.common import same_iteration
    for vp in (("ManageFarm", ".action", "Close"), ("ManageFarm", ".action", "Create")):
        A = W.run("farm_manager", "execute", vp)
        rem = [e for e in A.writes() if e.extra.get("item") == "FARMS" and e.extra.get("sop") == "remove"]
        refunds = sends_to(A, {"Store(FARMS).owner"})
        if not rem or not refunds:
            continue
        from rules.common import enclosing_iteration_elements
        res = []
        for r in refunds:
            els = enclosing_iteration_elements(W, A, r)
            res.append(None if not els else any("Store(FARMS)" in exact_origins(x) for x in els))   # built while iterating whole farms
        if any(x is None for x in res):
            chk.skip("ERR-refund-per-farm", "/".join(vp), "the refund is not built inside an iteration")
            continue
        chk.expect(all(res), "ERR-refund-per-farm", "/".join(vp), "each tolerated refund is built while iterating the closed farms (one sub-message per farm)",
                   "the tolerated refund is not built per closed farm (it is assembled outside the loop that removes the farms): one failing denom takes the other refunds of "
                   "the same message with it", where(refunds[0]))
    modes = {(c, m) for (c, w, vp, m, e, A) in seen}
    chk.expect(("pool_manager", "Success") in modes and ("farm_manager", "Error") in modes, "ERR-submsg-anchors",
               "anchors", "both documented sub-messages found", "documented sub-message constructors not found: %s" % sorted(modes))

    # ------------------------------------------------------------ 2. reply handlers
    for c in ("pool_manager", "farm_manager"):
        b = W.entry(c, "reply")
        if b is None:
            chk.fail("ERR-reply-unknown-id", c, "reply entry point missing", "")
            continue

        class NotId1(Cut):
            name = "msg.id==1"

            def remove(self, I, frame, pname, pargs, positive, labels3, opv):
                if pname != "data" or frame.body.id != b.id:
                    return None
                if not any(o == "msg.id" for (o, ops) in flat_atoms(pargs[0])):
                    return None
                return {tb for (v, tb, vn) in labels3 if v != "otherwise"}
        # the same assumption when the dispatch is written as a comparison (`if msg.id != ID { return Err }`, `if msg.id == ID {..}`)
        id_eq = PredTrue("msg.id==ID", lambda pn, pa: pn == "eq" and len(pa) > 1 and (
            (exact_origins(pa[0]) == {"msg.id"} and all(o.startswith("Const(") for o in all_origins(pa[1]))) or
            (exact_origins(pa[1]) == {"msg.id"} and all(o.startswith("Const(") for o in all_origins(pa[0])))))
        pol = CutPolicy([NotId1(), id_eq])
        A = W.run(c, "reply", None, pol)
        tv = tagvals(A.ret, "#v:std::result::Result") if A.ret is not None else None
        good = pol.hits and not A.effects() and tv == {"Err"}
        chk.expect(good, "ERR-reply-unknown-id", c, "every reply id other than the documented one returns Err without effects",
                   "unknown reply ids: result variants %s, effects %s, dispatch found: %s" % (tv, effects_signature(A), bool(pol.hits)),
                   b.span)
    A = W.run("farm_manager", "reply", None)
    chk.expect(not A.effects(), "WHO-reply-effects", "farm_manager::reply",
               "the handler of the tolerated refund failure reaches no storage write and no outgoing message",
               "farm-manager reply handler has effects: %s" % effects_signature(A), where(A.effects()[0]) if A.effects() else "")

    # ------------------------------------------------------------ 3. the tolerated failure does not block the close
    gt0 = PredTrue("refund>0", lambda pn, pa: pn in ("lt", "gt", "eq", "is_zero") and any(
        re.search(r"Store\(FARMS\).*amount|farm_asset\.amount|claimed_amount", o) for x in pa for (o, ops) in flat_atoms(x)))
    pol = CutPolicy([gt0])
    A = W.run("farm_manager", "execute", ("ManageFarm", ".action", "Close"), pol)
    rem = [e for e in A.writes() if e.extra.get("item") == "FARMS" and e.extra.get("sop") == "remove"]
    chk.expect(bool(rem), "PAIR-close-remove-independent", "farm_manager::close_farms",
               "FARMS.remove is reached independently of the refund amount / refund construction",
               "FARMS.remove is not reached when the refund branch is skipped", A.entry)

    # ------------------------------------------------------------ 4. swallowed results (whole contract crates)
    swallow_scan(W, chk)
    raw_storage_and_namespaces(W, chk)


def callee_of_local(b, local):
    """Name of the call whose destination is `local` (following one level of moves)."""
    for _ in range(4):
        src = None
        for blk in b.blocks:
            t = blk["term"]
            if t["k"] == "call" and t["dest"]["l"] == local and not t["dest"]["p"]:
                return t.get("resolved") or t.get("callee") or "?"
            for s in blk["stmts"]:
                if s["k"] == "assign" and s["lhs"]["l"] == local and not s["lhs"]["p"]:
                    if s["rv"]["k"] == "use":
                        op = s["rv"]["op"]
                        if op["k"] in ("copy", "move") and not op["place"]["p"]:
                            src = op["place"]["l"]
                    elif s["rv"]["k"] == "ref" and not s["rv"]["place"]["p"]:
                        src = s["rv"]["place"]["l"]
        if src is None:
            return "?"
        local = src
    return "?"


def uses_of_local(b, local):
    n = 0

    def scan_op(o):
        nonlocal n
        if o.get("k") in ("copy", "move") and o["place"]["l"] == local:
            n += 1

    def scan_place(p):
        nonlocal n
        if p["l"] == local:
            n += 1
    for blk in b.blocks:
        if blk["cleanup"]:
            continue
        for s in blk["stmts"]:
            if s["k"] != "assign":
                continue
            rv = s["rv"]
            for key in ("op", "a", "b"):
                if key in rv and isinstance(rv[key], dict):
                    scan_op(rv[key])
            for o in rv.get("ops", []):
                scan_op(o)
            if "place" in rv:
                scan_place(rv["place"])
        t = blk["term"]
        if t["k"] == "call":
            for a in t["args"]:
                scan_op(a)
        elif t["k"] == "switch":
            scan_op(t["op"])
    return n


PURE_EXTERNAL = re.compile(r"(checked_|saturating_|try_fold|from_atomics|transpose|query_wasm_smart|query_balance|query_supply|QuerierWrapper|"
                           r"may_load|::load$|::range|::prefix|::keys|parse$|from_str$|try_from$|try_into$|::next$|addr_validate|from_json|to_json|"
                           r"get_contract_version|Version::parse|checked_from_ratio|try_for_each|iter::Iterator|one_coin|must_pay|nonpayable|is_owner)")
WRITE_EXTERNAL = re.compile(r"(::save$|::update$|::remove$|::replace$|update_ownership|initialize_owner|set_contract_version|wasm_execute)")
_EFF = {}


def effect_free(W, fid):
    """does the local function reach no storage write and no outgoing message (analysed on its own)?"""
    if fid not in _EFF:
        try:
            H = W.run_fn(fid)
            _EFF[fid] = not H.effects()
        except Exception:
            _EFF[fid] = False
    return _EFF[fid]


def callee_id_of_local(b, local):
    for _ in range(4):
        src = None
        for blk in b.blocks:
            t = blk["term"]
            if t["k"] == "call" and t["dest"]["l"] == local and not t["dest"]["p"]:
                return t.get("resolved_id") or t.get("callee_id")
            for s_ in blk["stmts"]:
                if s_["k"] == "assign" and s_["lhs"]["l"] == local and not s_["lhs"]["p"]:
                    if s_["rv"]["k"] == "use":
                        op = s_["rv"]["op"]
                        if op["k"] in ("copy", "move") and not op["place"]["p"]:
                            src = op["place"]["l"]
                    elif s_["rv"]["k"] == "ref" and not s_["rv"]["place"]["p"]:
                        src = s_["rv"]["place"]["l"]
        if src is None:
            return None
        local = src
    return None


def propagates_err(b, bi, dl):
    """Is the `match` on a Result (discriminant read into local `dl` in block `bi`) a hand-written `?`: every path of the Err arm
    assigns `Err(..)` to the return place before it meets the Ok arm again, and after the arms meet nothing but the return
    happens (no call, no further assignment of the result)."""
    t = b.blocks[bi]["term"]
    if t["k"] != "switch" or t["op"].get("k") not in ("copy", "move") or t["op"]["place"]["l"] != dl:
        return False
    tg = {str(v): tb for v, tb in t["targets"]}
    err = tg.get("1", t["otherwise"] if "0" in tg else None)
    ok = tg.get("0", t["otherwise"] if "1" in tg else None)
    if err is None or ok is None or err == ok:
        return False

    def succ(x):
        return [y for y in b.succ[x] if not b.blocks[y].get("cleanup")]

    def reach(s):
        seen, work = set(), [s]
        while work:
            x = work.pop()
            if x in seen:
                continue
            seen.add(x)
            work.extend(succ(x))
        return seen
    r_ok, r_err = reach(ok), reach(err)
    excl = r_err - r_ok
    if err not in excl:
        return False
    err_locals = set()
    for x in excl:
        for s in b.blocks[x]["stmts"]:
            if s["k"] == "assign" and not s["lhs"]["p"] and s["rv"]["k"] == "agg" and s["rv"].get("agg") == "adt" and \
                    s["rv"].get("name") == "std::result::Result" and s["rv"].get("variant") == "Err":
                err_locals.add(s["lhs"]["l"])

    def sets_err(x):
        for s in b.blocks[x]["stmts"]:
            if s["k"] == "assign" and s["lhs"]["l"] == 0 and not s["lhs"]["p"]:
                if 0 in err_locals and s["rv"]["k"] == "agg":
                    return True
                if s["rv"]["k"] == "use" and s["rv"]["op"].get("k") == "move" and s["rv"]["op"]["place"]["l"] in err_locals:
                    return True
        tt = b.blocks[x]["term"]
        return tt["k"] == "call" and tt["dest"]["l"] == 0 and not tt["dest"]["p"] and "from_residual" in (tt.get("resolved") or tt.get("callee") or "")
    seen, work = set(), [err]
    while work:
        x = work.pop()
        if x in seen or sets_err(x):
            continue
        seen.add(x)
        if b.blocks[x]["term"]["k"] == "return":
            return False
        for y in succ(x):
            if y not in excl:
                return False      # the Err arm rejoins the Ok arm without having produced an Err
            work.append(y)
    for x in r_err & r_ok:
        if b.blocks[x]["term"]["k"] == "call":
            return False
        if any(s["k"] == "assign" and s["lhs"]["l"] == 0 for s in b.blocks[x]["stmts"]):
            return False
    return True


def swallow_scan(W, chk):
    """Every place where a Result is consumed without propagating its error (ok / unwrap_or* / is_ok / is_err / match not
    from `?` / dropped) must swallow an effect-free computation: then the discarded failure is that of a read or a pure
    computation and nothing of it can persist.  Decided per site by analysing the swallowed callee."""
    sites = []
    for c in CONTRACTS:
        for b in W.F.fns(c):
            if b.kind in ("const", "promoted") or re.search(r"::error::|\{impl#\d+\}::(fmt|eq|clone|source|from)$", b.id):
                continue
            for bi, blk in enumerate(b.blocks):
                if blk["cleanup"]:
                    continue
                t = blk["term"]
                if t["k"] == "call":
                    nm = t.get("resolved") or t.get("callee") or ""
                    meth = nm.rsplit("::", 1)[-1]
                    if "result::Result" in nm and meth in SWALLOWERS and t["args"]:
                        a0 = t["args"][0]
                        loc = a0["place"]["l"] if a0.get("k") in ("copy", "move") else None
                        sites.append((b, t.get("span", ""), meth, callee_of_local(b, loc) if loc is not None else "?", callee_id_of_local(b, loc) if loc is not None else None))
                    d = t["dest"]
                    if not d["p"] and d["l"] != 0:
                        ty = b.locals[d["l"]]
                        if ty.startswith("std::result::Result<") and uses_of_local(b, d["l"]) == 0:
                            sites.append((b, t.get("span", ""), "dropped", nm, t.get("resolved_id") or t.get("callee_id")))
                for s_ in blk["stmts"]:
                    if s_["k"] == "assign" and s_["rv"]["k"] == "discr" and s_["rv"].get("adt") == "std::result::Result":
                        pl = s_["rv"]["place"]
                        src = callee_of_local(b, pl["l"])
                        if "Try" in src and "branch" in src:
                            continue
                        if uses_of_local(b, s_["lhs"]["l"]) == 0:
                            continue      # a discriminant read nothing decides on (drop elaboration), not a `match`
                        if propagates_err(b, bi, s_["lhs"]["l"]):
                            continue      # `match r { Ok(x) => .., Err(e) => return Err(wrap(e)) }`: a hand-written `?`, nothing swallowed
                        sites.append((b, s_.get("span", ""), "match", src, callee_id_of_local(b, pl["l"])))
    for (b, span, meth, src, sid) in sites:
        inst = "%s:%s(%s)" % (b.id, meth, re.sub(r"<[^<>]*>", "", src).split("::")[-1])
        reason = None
        if sid and W.F.get(sid) is not None:
            if effect_free(W, sid):
                reason = "swallowed callee `%s` is effect-free (analysed: no storage write, no outgoing message)" % sid.split("::", 1)[-1]
        elif src == "?":
            # the Result is a parameter / a field: nothing is computed here; the enclosing function must be effect-free
            if effect_free(W, b.id):
                reason = "Result received as a value; the enclosing function is effect-free"
        elif WRITE_EXTERNAL.search(src):
            reason = None
        elif PURE_EXTERNAL.search(src):
            reason = "swallowed external `%s` is a read / pure computation" % re.sub(r"<[^<>]*>", "", src)[-50:]
        if reason:
            chk.ok("ERR-swallow-site", inst, reason)
        else:
            chk.fail("ERR-swallow-site", inst,
                     "Result of `%s` is swallowed by `%s` and the swallowed computation is not known to be effect-free" % (src[-80:], meth), span)
