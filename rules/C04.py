"""C04 - every swap conserves tokens and routes each fee to its destination."""
import re
from rules.common import (opmap, where, flat_atoms, all_origins, exact_origins, ops_of, show, field_val)
from rules import swapcore as sc
from base import CutPolicy
from absint import EMPTY, vfield

EXPLANATION = ("static analysis (MIR abstract interpretation) with compute_swap as a cut point: the offer is added in full and the ask reserve is "
               "reduced by exactly {return, protocol fee, burn fee} (checked arithmetic), which is exactly what the three outgoing messages "
               "carry, to {receiver-or-sender, fee collector, burn}; swap and extra fees reach neither; inside the cut point each fee is "
               "floor(gross * its own configured share), the net return subtracts all four, and every *_fee_amount field is wired to its "
               "same-named source through SwapComputation / SimulationResponse / SwapResult; routed swaps feed each hop with the previous "
               "hop's return and pay only the last one out")
ASSUMPTIONS = ["numeric equality of bank deltas follows from the wiring plus bank semantics", "Fee::compute (mantra_dex_std) is checked for rounding class only"]
TECHNIQUE = "static analysis: same-value provenance at both ends of each transfer (cut-point origins), field-agreement tables, rounding classes, loop lints on MIR CFG/def-use (accumulators, x=f(x) chains, early exits), lossy-container rule"
LEVEL_TEXT = "Structural obligations, exhaustive over CFG paths of Swap, ExecuteSwapOperations, perform_swap and the fee helpers."
LEVEL_NOTE = "Not decided: bank deltas as numbers; accumulate-vs-overwrite semantics of containers."
FLOORS = {"PROV-reserve-update": 4, "PROV-swap-outflow": 6, "AGREE-fees": 6}


def run(W, chk):
    sc.swap_conservation(W, chk, ("Swap",), r"^info\.funds\[\*\]\.amount$", {"info.sender", "msg.Swap.receiver"}, "msg.Swap.ask_asset_denom", "Swap")
    A = sc.swap_conservation(W, chk, ("ExecuteSwapOperations",), r"^(info\.funds\[\*\]\.amount|Call\(helpers::compute_swap\)\.return_amount)$",
                             {"info.sender", "msg.ExecuteSwapOperations.receiver"},
                             "msg.ExecuteSwapOperations.operations[*].MantraSwap.token_out_denom", "Router")
    # router: each hop's offer is the paid-in amount or the previous hop's return (exact), on the operation's pool
    hops = sc.hop_offers(A)
    chk.expect(len(hops) == 1, "PROV-router-chain", "anchor", "one swap computation per hop", "%d swap computation sites in the router" % len(hops), A.entry)
    for (e, m, da) in hops:
        chk.expect(set(m) == {"info.funds[*].amount", sc.N.C + ".return_amount"} and all(not ops for ops in m.values()), "PROV-router-chain", "hop offer",
                   "hop k offers exactly must_pay amount or the previous hop's return", "hop offer <- %s" % {k: sorted(v) for k, v in m.items()}, where(e))
    keys = set()
    for r in A.reads() + A.writes():
        if r.extra.get("item") == "POOLS":
            keys |= all_origins(r.extra.get("key", EMPTY))
    chk.expect(keys <= {"msg.ExecuteSwapOperations.operations[*].MantraSwap.pool_identifier", "Store(POOLS).pool_identifier"} and bool(keys), "PROV-router-chain", "hop pool",
               "on the operation's pool", "router touches pools %s" % sorted(keys), A.entry)
    # per-hop amounts are never parked in a keyed container by plain insert: a repeated key (two hops paying the same denom)
    # would overwrite the earlier hop's amount while the reserve was already debited for it
    lossy = []
    for e in A.calls(r"(BTreeMap|HashMap)<.*>::insert$|(BTreeMap|HashMap)::<.*>::insert$"):
        da = e.extra.get("dargs", [])
        if len(da) < 3:
            continue
        vm = opmap(da[2], lambda o, ops: o.startswith(sc.N.C + "."))
        if vm and any("add" not in ops for ops in vm.values()):
            lossy.append((e, sorted(vm)))
    chk.expect(not lossy, "PROV-no-lossy-accumulator", "Router", "no swap output is stored by overwriting map insert",
               "a per-hop amount %s is stored with `insert` (overwrites the earlier hop's amount under the same key) instead of being accumulated" % (lossy[0][1] if lossy else ""),
               where(lossy[0][0]) if lossy else A.entry)
    from rules.common import loop_accumulators
    loop_accumulators(W, chk, ["pool_manager", "mantra_dex_std"])   # fee sums over the extra fees
    from rules.common import loop_chains, all_elements_processed
    from rules.common import visited_fns
    loop_chains(W, chk, ["pool_manager"], only=visited_fns(A))
    all_elements_processed(chk, W, A, r"\.operations\[\*\]", "Router", "PROV-router-chain")
    sc.fee_internals(W, chk)
    sc.swap_result_wiring(W, chk)
