"""C14 - single-asset deposit = swap-half-then-deposit, atomic, no residue (structural part)."""
import re
from rules.common import (opmap, PredTrue, PredFalse, TryOk, EQ, VariantEdge, where, flat_atoms, all_origins, exact_origins, ops_of,
                          show, origin_match, eq_test, pred_test, effects_signature)
from base import CutPolicy
from absint import EMPTY, vfield, tagvals, const_of

EXPLANATION = ("static analysis (MIR abstract interpretation): the two legs are the public Swap / ProvideLiquidity messages sent to the "
               "contract itself, so equivalence reduces to argument/funds wiring, which is checked field by field (message <- buffer <- "
               "original request); buffer typestate (saved only before a reply_on_success sub-message, loaded/validated/removed in "
               "reply before the self-call); refusals before the buffer is written; locking only for the sender")
ASSUMPTIONS = ["a failing sub-message / self-call aborts the whole transaction (CosmWasm VM)",
               "numeric equality of LP minted in the two executions follows from the shared code path; the <=1 unit residue of an odd "
               "amount is not decided"]
TECHNIQUE = "static analysis: field-agreement of message construction, buffer typestate by cut-sets, guard cut-sets, expand-own-position cut shared with C08"
LEVEL_TEXT = ("Structural obligations over all paths of ProvideLiquidity (single-asset arm) and reply: wiring of 6+6 fields and both funds "
              "vectors, exactly one half rounded down swapped, reply mode, buffer save/load/validate/remove pairing, refusal guards.")
LEVEL_NOTE = "Not decided: numeric LP equality and the residue bound (follow from the shared path / floor(D/2)*2<=D)."

BUF = "Store(SINGLE_SIDE_LIQUIDITY_PROVISION_BUFFER)"
LPD = ["swap_max_slippage", "liquidity_max_slippage", "pool_identifier", "unlocking_duration", "lock_position_identifier"]
FLOORS = {"AGREE-reply-msg": 6, "AGREE-buffer": 5, "CUT-buffer": 4, "CUT-reply": 2}
SINGLE = PredFalse("single-asset arm", eq_test(r"^info\.funds\[\*\]$", r"^Const\(1_usize\)$"))


def buf_events(A, sop=None):
    return [e for e in A.events if e.kind == "call" and e.extra.get("item") == "SINGLE_SIDE_LIQUIDITY_PROVISION_BUFFER"
            and (sop is None or e.extra.get("sop") == sop)]


def run(W, chk):
    from rules.common import borrow as _b
    _b(W, chk, "C08", {"AGREE-lock-msg"}, "LP locked by the second leg is locked for the depositor")
    _b(W, chk, "C04", {"AGREE-deducted-equals-sent", "PROV-reserve-update"}, "the first leg's swap books exactly what the simulation the buffer relies on reports")
    from rules.common import borrow
    borrow(W, chk, "C08", {"CUT-expand-own-position"}, "the second leg cannot expand a position of someone other than the sender")
    A = W.run("pool_manager", "execute", ("ProvideLiquidity",))
    # ---------------- first leg
    legs = [e for e in A.calls(r"cosmwasm_std::wasm_execute$")
            if tagvals(e.extra["dargs"][1], "#v:mantra_dex_std::pool_manager::ExecuteMsg") == {"Swap"}]
    chk.expect(len(legs) == 1, "BYCONSTR-swap-leg", "count", "one self Swap message", "%d Swap self-calls built" % len(legs), A.entry)
    for e in legs:
        da = e.extra["dargs"]
        sw = vfield(da[1], "Swap")
        chk.expect(exact_origins(da[0]) == {"env.contract.address"}, "BYCONSTR-swap-leg", "target", "sent to the contract itself",
                   "swap leg is sent to %s" % sorted(all_origins(da[0])), where(e))
        chk.expect(tagvals(vfield(sw, "receiver"), "#v:std::option::Option") == {"None"}, "BYCONSTR-swap-leg", "receiver",
                   "receiver: None (proceeds return to the contract)", "swap leg receiver is %s" % show(vfield(sw, "receiver")), where(e))
        chk.expect(tagvals(vfield(sw, "belief_price"), "#v:std::option::Option") == {"None"}, "BYCONSTR-swap-leg", "belief_price",
                   "belief_price: None", "swap leg belief_price is %s" % show(vfield(sw, "belief_price")), where(e))
        chk.expect(exact_origins(vfield(sw, "max_slippage")) == {"msg.ProvideLiquidity.swap_max_slippage"} and not ops_of(vfield(sw, "max_slippage")),
                   "BYCONSTR-swap-leg", "max_slippage", "max_slippage <- swap_max_slippage",
                   "swap leg max_slippage <- %s" % sorted(all_origins(vfield(sw, "max_slippage"))), where(e))
        chk.expect(exact_origins(vfield(sw, "pool_identifier")) == {"msg.ProvideLiquidity.pool_identifier"}, "BYCONSTR-swap-leg", "pool_identifier",
                   "same pool", "swap leg pool <- %s" % sorted(all_origins(vfield(sw, "pool_identifier"))), where(e))
        chk.expect(all_origins(vfield(sw, "ask_asset_denom")) == {"Store(POOLS).assets[*].denom"}, "BYCONSTR-swap-leg", "ask denom",
                   "ask denom is the pool's other asset", "ask denom <- %s" % sorted(all_origins(vfield(sw, "ask_asset_denom"))), where(e))
        amt = vfield(vfield(da[2], "[*]"), "amount")
        m = {}
        for (o, ops) in flat_atoms(amt):
            m.setdefault(o, set()).update(ops)
        good = m.get("info.funds[*].amount") == {"div_floor", "div:l"} and set(m) <= {"info.funds[*].amount", "Const(2_u64)", "Const(1_u64)"} \
            and m.get("Const(2_u64)") == {"div_floor", "div:r"}
        chk.expect(good, "PROV-half", "swap leg funds", "funds = deposit.amount div_floor (2,1)",
                   "swapped amount is computed as %s" % {k: sorted(v) for k, v in m.items()}, where(e))
        den = vfield(vfield(da[2], "[*]"), "denom")
        chk.expect(exact_origins(den) == {"info.funds[*].denom"}, "PROV-half", "swap leg denom", "denom of the deposit", "denom <- %s" % sorted(all_origins(den)), where(e))
    subs = [e for e in A.calls(r"cosmwasm_std::SubMsg::<") if e.extra.get("submsg_mode")]
    chk.expect(len(subs) == 1 and subs[0].extra["submsg_mode"] == "Success", "ERR-reply-mode", "ProvideLiquidity",
               "the swap leg is the only sub-message and is reply_on_success", "sub-messages: %s" % [s.extra.get("submsg_mode") for s in subs],
               where(subs[0]) if subs else A.entry)

    # ---------------- buffer content
    saves = buf_events(A, "save")
    chk.expect(len(saves) == 1, "AGREE-buffer", "count", "one BUFFER.save", "%d BUFFER.save sites" % len(saves), A.entry)
    for e in saves:
        v = e.extra.get("value", EMPTY)
        lpd = vfield(v, "liquidity_provision_data")
        for f in LPD:
            fo = vfield(lpd, f)
            chk.expect(exact_origins(fo) == {"msg.ProvideLiquidity.%s" % f} and not ops_of(fo), "AGREE-buffer", f,
                       "buffer.%s <- request.%s" % (f, f), "buffer.%s <- %s" % (f, sorted(all_origins(fo))), where(e))
        ro = all_origins(vfield(v, "receiver"))
        chk.expect(ro == {"info.sender", "msg.ProvideLiquidity.receiver"}, "AGREE-buffer", "receiver", "receiver = validated-or-default(receiver, sender)",
                   "buffer.receiver <- %s" % sorted(ro), where(e))
        half = vfield(vfield(v, "offer_asset_half"), "amount")
        hm = opmap(half, lambda o, ops: not o.startswith("Const("))
        chk.expect(hm == {"info.funds[*].amount": frozenset(["div_floor", "div:l"])}, "AGREE-buffer", "offer_asset_half", "the half kept = the half swapped",
                   "offer_asset_half <- %s" % {k: sorted(v) for k, v in hm.items()}, where(e))
        ea = vfield(v, "expected_ask_asset")
        chk.expect(all_origins(vfield(ea, "denom")) == {"Store(POOLS).assets[*].denom"}, "AGREE-buffer", "expected_ask_asset.denom",
                   "ask denom", "expected ask denom <- %s" % sorted(all_origins(vfield(ea, "denom"))), where(e))

    # ---------------- refusals before BUFFER.save (within the single-asset arm)
    def buffer_saved(cuts, name):
        pol = CutPolicy(list(cuts) + [SINGLE])
        B = W.run("pool_manager", "execute", ("ProvideLiquidity",), pol)
        hit = any(c.name in pol.hits for c in cuts)
        s = buf_events(B, "save")
        chk.expect(hit and not s, "CUT-buffer", name, "BUFFER.save unreachable without the guard",
                   "single-asset deposit reaches BUFFER.save without `%s` (guard found: %s)" % (name, hit), where(s[0]) if s else B.entry)
    buffer_saved([PredFalse("no empty pool asset", lambda pn, pa: pn == "any" and origin_match(pa[0], r"^Store\(POOLS\)\.assets\[\*\]\.amount$", False))],
                 "pool assets non-zero")
    buffer_saved([PredTrue("two assets", eq_test(r"^Store\(POOLS\)\.assets$", r"^Const\(2_usize\)$"))], "exactly two assets")
    buffer_saved([PredFalse("unlocking_duration is None", pred_test("is_some", r"^msg\.ProvideLiquidity\.unlocking_duration$")),
                  EQ("receiver==sender", r"^(info\.sender|msg\.ProvideLiquidity\.receiver)$", r"^info\.sender$")], "lock only for the sender")
    buffer_saved([PredFalse("expected ask balance non-zero", lambda pn, pa: pn == "is_zero" and origin_match(pa[0], r"^Query\(balance\)$", False))],
                 "expected ask balance > 0")

    # ---------------- WHO buffer
    who = {}
    for b in W.F.fns("pool_manager"):
        for blk in b.blocks:
            t = blk["term"]
            if t["k"] != "call" or "cw_storage_plus::Item" not in t.get("callee", ""):
                continue
            for a in t["args"][:1]:
                pass
        txt = None
    for (which, vp) in [("execute", p) for p in W.variant_paths("pool_manager", "execute")[0]] + [("reply", None), ("instantiate", None), ("migrate", None)]:
        X = A if vp == ("ProvideLiquidity",) else W.run("pool_manager", which, vp)
        for e in buf_events(X):
            who.setdefault(e.extra.get("sop"), set()).add("/".join(vp or (which,)))
    chk.expect(who == {"save": {"ProvideLiquidity"}, "load": {"reply"}, "remove": {"reply"}}, "WHO-buffer", "pool_manager",
               "BUFFER: saved by ProvideLiquidity only; loaded and removed by reply only", "BUFFER is touched by %s" % {k: sorted(v) for k, v in who.items()}, "")

    # ---------------- reply
    R = W.run("pool_manager", "reply", None)
    calls = R.calls(r"cosmwasm_std::wasm_execute$")
    chk.expect(len(calls) == 1, "AGREE-reply-msg", "count", "one self-call", "%d wasm_execute in reply" % len(calls), R.entry)
    for e in calls:
        da = e.extra["dargs"]
        chk.expect(exact_origins(da[0]) == {"env.contract.address"}, "AGREE-reply-msg", "target", "second leg goes to the contract itself",
                   "second leg target %s" % sorted(all_origins(da[0])), where(e))
        pl = vfield(da[1], "ProvideLiquidity")
        chk.expect(tagvals(da[1], "#v:mantra_dex_std::pool_manager::ExecuteMsg") == {"ProvideLiquidity"}, "AGREE-reply-msg", "variant",
                   "public ProvideLiquidity", "second leg is %s" % tagvals(da[1], "#v:mantra_dex_std::pool_manager::ExecuteMsg"), where(e))
        for f in LPD:
            fo = vfield(pl, f)
            want = "%s.liquidity_provision_data.%s" % (BUF, f)
            chk.expect(exact_origins(fo) == {want} and not ops_of(fo), "AGREE-reply-msg", f, "%s <- buffer.%s" % (f, f),
                       "second leg %s <- %s" % (f, sorted(all_origins(fo))), where(e))
        rc = vfield(pl, "receiver")
        chk.expect(exact_origins(rc) == {BUF + ".receiver"} and tagvals(rc, "#v:std::option::Option") == {"Some"}, "AGREE-reply-msg", "receiver",
                   "receiver <- Some(buffer.receiver)", "second leg receiver <- %s" % show(rc), where(e))
        fo = exact_origins(vfield(da[2], "[*]"))
        chk.expect(fo == {BUF + ".offer_asset_half", BUF + ".expected_ask_asset"} and not ops_of(da[2]), "AGREE-reply-msg", "funds",
                   "funds = [buffer.offer_asset_half, buffer.expected_ask_asset]", "second leg funds <- %s" % sorted(all_origins(da[2])), where(e))
    for nm, pat in (("offer balance check", r"expected_offer_asset_balance_in_contract"), ("ask balance check", r"expected_ask_asset_balance_in_contract")):
        cut = PredTrue(nm, lambda pn, pa, pat=pat: pn == "eq" and len(pa) > 1 and
                       (origin_match(pa[0], pat, False) and origin_match(pa[1], r"Query\(balance\)", False) or
                        origin_match(pa[1], pat, False) and origin_match(pa[0], r"Query\(balance\)", False)))
        pol = CutPolicy([cut])
        B = W.run("pool_manager", "reply", None, pol)
        eff = [e for e in B.effects()]
        chk.expect(bool(pol.hits) and not eff, "CUT-reply", nm, "neither BUFFER.remove nor the self-call is reachable without it",
                   "reply proceeds without the %s (guard found: %s): %s" % (nm, bool(pol.hits), effects_signature(B)), where(eff[0]) if eff else B.entry)
    rem = buf_events(R, "remove")
    chk.expect(len(rem) == 1, "PAIR-buffer-removed", "reply", "BUFFER.remove on the success path", "BUFFER.remove sites in reply: %d" % len(rem), R.entry)
    # the remove is unconditional once both validations passed: no path to the self-call avoids it
    # (remove precedes the call in the same straight-line region; check by cutting nothing and comparing reachability)
