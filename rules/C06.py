"""C06 - rewards paid never exceed what a farm has emitted (structural part)."""
import re
from rules.common import (opmap, PredTrue, PredFalse, TryOk, VariantEdge, NONPAYABLE, no_effects, where, flat_atoms, all_origins, exact_origins,
                          ops_of, show, origin_match, eq_test, pred_test, field_val, effects_signature)
from base import CutPolicy, dep_origins
from rules.common import rel, rel_sign, om, find_rel
from absint import EMPTY, vfield, tagvals, const_of

EXPLANATION = ("static analysis (MIR abstract interpretation): a claim records `until_epoch` as last claimed on every paying path and the "
               "next claim starts at last+1; `until >= last claimed` and `until <= current` cut the payout; every LP-weight snapshot "
               "key is current+1 or a bounded until_epoch; required dependence: the snapshot re-written at the claimed epoch must depend "
               "on that epoch (a weight taking effect later must not be moved back); budget guards compare the *updated* claimed amount")
ASSUMPTIONS = ["per-epoch sums over users and cumulative bounds are numeric / history facts and are not decided",
               "epoch manager answers are trusted inputs"]
TECHNIQUE = "static analysis: guard cut-sets, key provenance of weight snapshots, required-dependence proof, guard operand provenance, snapshot-selection key provenance, twin weight updates shared with C10"
LEVEL_TEXT = ("Structural obligations over all paths of Claim and of every LP_WEIGHT_HISTORY writer; the required-dependence rule is a sound "
              "proof of a defect when it fires (x not in dep(v) over-approximated).")
LEVEL_NOTE = "Not decided: sums over users per epoch, cumulative bounds, numeric weights."

UNTIL = {"Query(CurrentEpoch).id", "msg.Claim.until_epoch"}
FLOORS = {"PROV-weight-key": 4, "CUT-claim-window": 2, "DEP-carried-snapshot": 1}
FM = "farm_manager"


def payout(A):
    """reward payments and their bookkeeping (a Send of an empty reward list - the zero-LP-denom path the non-empty
    positions check excludes - carries nothing and is left out)"""
    out = [e for e in A.writes() if e.extra.get("item") in ("FARMS", "LP_WEIGHT_HISTORY")]
    for e in A.aggs(r"BankMsg::Send$"):
        am = A.d(field_val(e, "amount"))
        if any(not o.startswith("Const(") for o in all_origins(am)):
            out.append(e)
    return out


def run(W, chk):
    from rules.common import borrow as _b2
    _b2(W, chk, "C11", {"CUT-create-farm"}, "a farm's budget is funded in full, so cumulative payouts never exceed what was paid in")
    from rules.common import borrow
    borrow(W, chk, "C10", {"CUT-withdraw-open-only", "AGREE-twin-update"}, "the total weight rewards are divided by is updated exactly once per position change")
    A = W.run(FM, "execute", ("Claim",))
    # ---- last claimed epoch recorded, exactly until_epoch, for the sender
    lc = [e for e in A.writes() if e.extra.get("item") == "LAST_CLAIMED_EPOCH" and e.extra.get("sop") == "save"]
    chk.expect(len(lc) == 1 and exact_origins(lc[0].extra.get("value", EMPTY)) == UNTIL and not ops_of(lc[0].extra.get("value", EMPTY))
               and exact_origins(lc[0].extra.get("key", EMPTY)) == {"info.sender"}, "PAIR-last-claimed", "Claim",
               "LAST_CLAIMED_EPOCH[info.sender] <- exact until_epoch", "last claimed epoch is recorded as %s under %s (%d sites)" % (
                   show(lc[0].extra.get("value", EMPTY))[:200] if lc else None, show(lc[0].extra.get("key", EMPTY))[:100] if lc else None, len(lc)),
               where(lc[0]) if lc else A.entry)
    # every path that builds the reward Send passes the save: cut = remove nothing; check by assuming the save is skipped is impossible
    # structurally: the save is unconditional on the success path (same straight region): it must dominate the Send
    sends = A.aggs(r"BankMsg::Send$")
    chk.expect(len(sends) == 1, "PAIR-last-claimed", "send-anchor", "one reward Send", "%d Send constructors in Claim" % len(sends), A.entry)
    # the epochs iterated for payment start at last claimed + 1: the loop range's lower bound
    rngs = [e for e in A.calls(r"RangeInclusive::<.*>::new$|RangeInclusive<.*>::new$") if "Store(LAST_CLAIMED_EPOCH)" in all_origins(e.extra["dargs"][0])]
    okst = bool(rngs)
    for e in rngs:
        m = opmap(e.extra["dargs"][0], lambda o, ops: "key" not in ops)
        lc_ops = m.get("Store(LAST_CLAIMED_EPOCH)", frozenset())
        okst = okst and "add" in lc_ops and "Const(1_u64)" in m
    chk.expect(okst, "PROV-claim-start", "Claim", "epoch ranges iterated for payment start from last claimed + 1",
               "claim start epoch <- %s" % [show(e.extra["dargs"][0])[:200] for e in rngs], where(rngs[0]) if rngs else A.entry)

    # ---- one reward computation per LP denom: the denoms iterated are de-duplicated (no epoch paid twice)
    uniq_denoms(chk, A, "Claim")

    # ---- a user's weight for epoch e comes only from the snapshot keyed (user, lp, e) or is carried from zero
    fid_w = "farm_manager::farm::commands::compute_address_weights"
    if not W.has_fn(fid_w):
        chk.skip("PROV-user-weight-source", "compute_address_weights", "helper not found under this name")
        return window_and_keys(W, chk, A)
    H = W.run_fn(fid_w)
    rd = [e for e in H.reads() if e.extra.get("item") == "LP_WEIGHT_HISTORY"]
    okr = bool(rd)
    for e in rd:
        k = e.extra.get("key", EMPTY)
        k2 = opmap(vfield(k, "2"))
        okr = okr and e.extra.get("sop") == "may_load" and exact_origins(vfield(k, "0")) == {"address"} and \
            exact_origins(vfield(k, "1")) == {"lp_asset_denom"} and bool(k2) and all("range" in ops for o, ops in k2.items() if not o.startswith("Const("))
    els = vfield(H.ret if H.ret is not None else EMPTY, "[*]")
    src = {o for o in all_origins(els)}
    chk.expect(okr and src == {"Store(LP_WEIGHT_HISTORY)", "Const(0)"}, "PROV-user-weight-source", "compute_address_weights",
               "weights are the snapshots keyed by the loop epoch, carried forward from zero",
               "user weights come from %s via %s" % (sorted(src), [(e.extra.get("sop"), show(e.extra.get("key", EMPTY))[:120]) for e in rd]), H.entry)

    window_and_keys(W, chk, A)


def carried_snapshot(chk, e, m):
    """the F3 rule: the snapshot re-written at the claimed epoch is the one in effect there"""
    dep = dep_origins(e.extra.get("value", EMPTY))
    need = set(m) & {"msg.Claim.until_epoch"}
    kt = e.extra.get("value", EMPTY).fields.get("#may:key")
    sel = {o for (o, ops) in kt.atoms} if kt is not None else set()
    stray = sorted(o for o in sel if o.startswith("Store(LP_WEIGHT_HISTORY)"))
    bounded_by_until = kt is not None and any(o in UNTIL and ("bound" in ops or "key" in ops) for (o, ops) in kt.atoms)
    chk.expect(bounded_by_until, "DEP-carried-snapshot", "Claim: snapshot looked up at the claimed epoch",
               "the snapshot carried to until_epoch is read from the history with until_epoch as key / range bound",
               "the value re-written at until_epoch is not read from the history at (or bounded by) until_epoch - selection uses %s: "
               "it is not the weight in effect at that epoch" % sorted(sel), where(e))
    chk.expect(not stray, "DEP-carried-snapshot", "Claim: snapshot selected by the claimed epoch only",
               "the snapshot carried to until_epoch is selected by (user, lp denom, until_epoch) alone",
               "the snapshot re-written at until_epoch is selected with a bound taken from the history itself (%s): an entry that "
               "takes effect after until_epoch can be moved back to it" % stray, where(e))
    chk.expect(bool(need) and need <= dep, "DEP-carried-snapshot", "Claim: snapshot re-written at until_epoch",
               "the weight re-written at the claimed epoch depends on that epoch (it is the snapshot in effect there)",
               "value saved at key epoch %s does not depend on it (depends on %s): a snapshot taking effect later is moved back to "
               "until_epoch and earlier epochs are paid with it" % (sorted(m), sorted(o for o in dep if not o.startswith("Const("))[:8]), where(e))


def window_and_keys(W, chk, A):
    # ---- window cuts
    ge_last = PredTrue("until >= last_claimed", rel(r"^(Query\(CurrentEpoch\)\.id|msg\.Claim\.until_epoch)$", ">=", r"^Store\(LAST_CLAIMED_EPOCH\)$"))
    claimed_before = VariantEdge("assume claimed before", r"^Store\(LAST_CLAIMED_EPOCH\)$", ["None"])
    no_effects(chk, W, "CUT-claim-window", FM, ("Claim",), [ge_last], " [given a previous claim]", effects=payout, extra=[claimed_before])
    le_cur = PredTrue("until <= current", rel(r"^msg\.Claim\.until_epoch$", "<=", r"^Query\(CurrentEpoch\)\.id$"))
    until_some = VariantEdge("assume until_epoch given", r"^msg\.Claim\.until_epoch$", ["None"])
    no_effects(chk, W, "CUT-claim-window", FM, ("Claim",), [le_cur], " [given until_epoch]", effects=payout, extra=[until_some])

    # ---- LP_WEIGHT_HISTORY key discipline over every writer
    paths, _ = W.variant_paths(FM, "execute")
    n = 0
    for vp in paths:
        X = A if vp == ("Claim",) else W.run(FM, "execute", vp)
        for e in X.writes():
            if e.extra.get("item") != "LP_WEIGHT_HISTORY" or e.extra.get("sop") != "save":
                continue
            n += 1
            k2 = vfield(e.extra.get("key", EMPTY), "2")
            m = opmap(k2)
            nxt = m == {"Query(CurrentEpoch).id": frozenset(["add"]), "Const(1_u64)": frozenset(["add"])}
            bounded = set(m) <= UNTIL and set(m) and all(not ops for ops in m.values()) and vp == ("Claim",)
            chk.expect(nxt or bounded, "PROV-weight-key", "%s@%s" % ("/".join(vp), e.span.rsplit(":", 1)[-1]),
                       "snapshot key epoch is current+1" if nxt else "snapshot key epoch is the validated until_epoch",
                       "weight snapshot written at epoch %s" % {k: sorted(v) for k, v in m.items()}, where(e))
            if bounded:
                carried_snapshot(chk, e, m)
    chk.expect(n >= 5, "PROV-weight-key", "anchor-count", "%d snapshot writers analysed" % n, "only %d LP_WEIGHT_HISTORY writers found" % n, "")

    # ---- budget guards compare the updated claimed amount
    g = []
    BUD = r"^Store\(FARMS\)\.farm_asset\.amount$"
    for (e, a, s) in find_rel(A.switches(), lambda v: True, "<=", om(BUD)):
        lhs = a[0] if origin_match(a[1], BUD) else a[1]
        g.append((e, lhs))
    okb = len(g) >= 2
    for (e, lhs) in g:
        o = all_origins(lhs)
        okb = okb and "Store(FARMS).claimed_amount" in o and "Store(FARMS).emission_rate" in o
    chk.expect(okb, "PROV-budget-guard", "FarmExhausted", "both budget checks compare claimed + reward with the budget",
               "budget guard operands: %s" % [sorted(x for x in all_origins(l) if x.startswith("Store(FARMS)")) for (e, l) in g], where(g[0][0]) if g else A.entry)
    inner = PredTrue("claimed <= budget (update)", lambda pn, pa: rel_sign(pn, pa, lambda v: not origin_match(v, BUD), "<=", om(BUD)))
    pol = CutPolicy([inner])
    B = W.run(FM, "execute", ("Claim",), pol)
    fw = [e for e in B.writes() if e.extra.get("item") == "FARMS"]
    chk.expect(bool(pol.hits) and not fw, "CUT-budget", "claim", "FARMS is not written without `claimed_amount <= farm_asset.amount`",
               "FARMS.update reachable without the budget check (guard found: %s)" % bool(pol.hits), where(fw[0]) if fw else B.entry)




def uniq_denoms(chk, A, lab):
    loops = [e for e in A.calls(r"IntoIterator.*::into_iter$") if all_origins(vfield(A.d(e.extra["dargs"][0]), "[*]")) == {"Store(POSITIONS).lp_asset.denom"}]
    ok = bool(loops) and all("#uniq" in A.d(e.extra["dargs"][0]).fields for e in loops)
    chk.expect(ok, "UNIQ-lp-denoms", lab, "rewards are computed once per distinct LP denom (the iterated denoms come from a set)",
               "the LP denoms iterated for reward computation are not de-duplicated (%d loops): a user with two positions in one LP token "
               "is paid the same epochs twice" % len(loops), where(loops[0]) if loops else A.entry)
